import Upf.Proofs.BessAddDel
import Upf.Model.AgentMod
namespace Agent

def Table.get (t : Table) (k : String) : Option String := (t.find? (fun e => e.1 == k)).map (·.2)

def lastVal (es : List (String × String)) (k : String) : Option String := (es.reverse.find? (fun e => e.1 == k)).map (·.2)

theorem Table.get_upsert (t : Table) (k v k' : String) :
    (t.upsert k v).get k' = if k' = k then some v else t.get k' := by
  unfold Table.upsert Table.get
  by_cases hany : t.any (fun e => e.1 == k) = true
  · rw [if_pos hany, List.find?_map]
    have hf : ((fun e : String × String => e.1 == k') ∘ fun e => if (e.1 == k) = true then (k, v) else e) = fun e => e.1 == k' := by
      funext e
      by_cases he : e.1 = k <;> simp [Function.comp, he]
    rw [hf]
    by_cases hk : k' = k
    · subst hk
      obtain ⟨x, hx, hxk⟩ := List.any_eq_true.mp hany
      cases hfind : t.find? (fun e => e.1 == k') with
      | none => exact absurd hxk (by simpa using List.find?_eq_none.mp hfind x hx)
      | some e =>
        have : e.1 = k' := by simpa using List.find?_some hfind
        simp [this]
    · cases hfind : t.find? (fun e => e.1 == k') with
      | none => simp [hk]
      | some e =>
        have h1 : e.1 = k' := by simpa using List.find?_some hfind
        have h2 : ¬ e.1 = k := fun h => hk (h1 ▸ h)
        simp [hk, h2]
  · rw [if_neg hany, List.find?_append]
    have hnone : ∀ x ∈ t, ¬ (x.1 == k) = true := fun x hx hxk => hany (List.any_eq_true.mpr ⟨x, hx, hxk⟩)
    by_cases hk : k' = k
    · subst hk
      have : t.find? (fun e => e.1 == k') = none := List.find?_eq_none.mpr (by simpa using hnone)
      simp [this]
    · have : (k == k') = false := by simpa using fun h => hk h.symm
      simp [hk, this]

theorem Table.get_del (t : Table) (k k' : String) : (t.del k).get k' = if k' = k then none else t.get k' := by
  unfold Table.del Table.get
  rw [List.find?_filter]
  by_cases hk : k' = k
  · subst hk
    have : (t.find? fun e => (e.1 != k') && (e.1 == k')) = none := by
      rw [List.find?_eq_none]; intro x _; by_cases h : x.1 = k' <;> simp [h]
    simp [this]
  · simp only [hk, if_false]
    congr 1
    induction t with
    | nil => rfl
    | cons x rest ih =>
      simp only [List.find?_cons]
      by_cases h : x.1 = k'
      · have : ¬ x.1 = k := fun e => hk (h ▸ e)
        simp [h, this, hk]
      · have h' : (x.1 == k') = false := by simpa using h
        simp only [h', Bool.false_eq_true, and_false, decide_false]
        exact ih


theorem lastVal_append (es1 es2 : List (String × String)) (k : String) :
    lastVal (es1 ++ es2) k = (lastVal es2 k).or (lastVal es1 k) := by
  unfold lastVal
  rw [List.reverse_append, List.find?_append]
  cases List.find? (fun e => e.1 == k) es2.reverse <;> simp

theorem lastVal_single (e : String × String) (k : String) : lastVal [e] k = if k = e.1 then some e.2 else none := by
  unfold lastVal
  by_cases h : k = e.1
  · simp [h]
  · have : (e.1 == k) = false := by simpa using fun x => h x.symm
    simp [h, this]

theorem Table.get_ins (es : List (String × String)) : ∀ (t : Table) (k : String),
    (es.foldl (fun tb e => tb.upsert e.1 e.2) t).get k = (lastVal es k).or (t.get k) := by
  induction es with
  | nil => intro t k; simp [lastVal]
  | cons e rest ih =>
    intro t k
    rw [List.foldl_cons, ih, Table.get_upsert]
    have : e :: rest = [e] ++ rest := rfl
    rw [this, lastVal_append, lastVal_single, Option.or_assoc]
    by_cases h : k = e.1 <;> simp [h]

theorem Table.get_without (t : Table) (K : List String) (k : String) :
    (t.without K).get k = if k ∈ K then none else t.get k := by
  unfold Table.without Table.get
  rw [List.find?_filter]
  by_cases hk : k ∈ K
  · have : (t.find? fun a => decide ((!K.contains a.1) = true ∧ (a.1 == k) = true)) = none := by
      rw [List.find?_eq_none]; intro x _
      by_cases h : x.1 = k
      · simp [h, hk]
      · simp [h]
    rw [this]; simp [hk]
  · simp only [hk, if_false]
    congr 1
    induction t with
    | nil => rfl
    | cons x rest ih =>
      simp only [List.find?_cons]
      by_cases h : x.1 = k
      · simp [h, hk]
      · have h' : (x.1 == k) = false := by simpa using h
        simp only [h', Bool.false_eq_true, and_false, decide_false]
        exact ih

theorem lastVal_isSome (es : List (String × String)) (k : String) : (lastVal es k).isSome ↔ k ∈ es.map (·.1) := by
  unfold lastVal
  rw [Option.isSome_map, List.find?_isSome]
  constructor
  · rintro ⟨x, hx, hxk⟩
    exact List.mem_map.mpr ⟨x, List.mem_reverse.mp hx, by simpa using hxk⟩
  · intro h
    obtain ⟨x, hx, hxk⟩ := List.mem_map.mp h
    exact ⟨x, List.mem_reverse.mpr hx, by simpa using hxk⟩

theorem lastVal_none (es : List (String × String)) (k : String) (h : k ∉ es.map (·.1)) : lastVal es k = none := by
  cases hv : lastVal es k with
  | none => rfl
  | some v => exact absurd ((lastVal_isSome es k).mp (by simp [hv])) h


/-! ## the four tables, indexed -/

inductive Tb | pdr | far | app | sess
  deriving DecidableEq

def Tables.tab (t : Tables) : Tb → Table
  | .pdr => t.pdr | .far => t.far | .app => t.appQer | .sess => t.sessQer

def Session.kv (cfg : Cfg) (s : Session) : Tb → List (String × String)
  | .pdr => pdrKV s.pdrs | .far => farKV s.fars | .app => appQerKV cfg s.qers | .sess => sessQerKV cfg s.qers

def Session.keysOf (cfg : Cfg) (s : Session) (X : Tb) : List String := (s.kv cfg X).map (·.1)

theorem sendAdd_tab (cfg : Cfg) (t : Tables) (s : Session) (X : Tb) :
    (sendAdd cfg t s.pdrs s.fars s.qers).tab X = (s.kv cfg X).foldl (fun tb e => tb.upsert e.1 e.2) (t.tab X) := by
  unfold sendAdd
  simp only [addPdrs_eq, addFars_eq, addQers_eq]
  cases X <;> rfl

theorem sendDel_tab (cfg : Cfg) (t : Tables) (s : Session) (X : Tb) :
    (sendDel cfg t s.pdrs s.fars s.qers).tab X = (t.tab X).without (s.keysOf cfg X) := by
  rw [sendDel_eq]
  cases X <;> rfl

theorem get_sendAdd (cfg : Cfg) (t : Tables) (s : Session) (X : Tb) (k : String) :
    ((sendAdd cfg t s.pdrs s.fars s.qers).tab X).get k = (lastVal (s.kv cfg X) k).or ((t.tab X).get k) := by
  rw [sendAdd_tab, Table.get_ins]

theorem get_sendDel (cfg : Cfg) (t : Tables) (s : Session) (X : Tb) (k : String) :
    ((sendDel cfg t s.pdrs s.fars s.qers).tab X).get k = if k ∈ s.keysOf cfg X then none else (t.tab X).get k := by
  rw [sendDel_tab, Table.get_without]

theorem key_of_lastVal {cfg : Cfg} {s : Session} {X : Tb} {k v : String} (h : lastVal (s.kv cfg X) k = some v) : k ∈ s.keysOf cfg X :=
  (lastVal_isSome _ _).mp (by simp [h])

/-- two stored sessions never share a SEID or a key of any lookup table (the envelope of C03: unambiguous rule sets) -/
def Disj (cfg : Cfg) (s1 s2 : Session) : Prop :=
  s1.lseid ≠ s2.lseid ∧ (∀ k ∈ s1.keysOf cfg .pdr, k ∉ s2.keysOf cfg .pdr) ∧ (∀ k ∈ s1.keysOf cfg .far, k ∉ s2.keysOf cfg .far) ∧
  (∀ k ∈ s1.keysOf cfg .app, k ∉ s2.keysOf cfg .app) ∧ (∀ k ∈ s1.keysOf cfg .sess, k ∉ s2.keysOf cfg .sess)

instance (cfg : Cfg) (s1 s2 : Session) : Decidable (Disj cfg s1 s2) := by unfold Disj; infer_instance

theorem Disj.keys {cfg : Cfg} {s1 s2 : Session} (h : Disj cfg s1 s2) (X : Tb) (k : String) (h1 : k ∈ s1.keysOf cfg X) : k ∉ s2.keysOf cfg X := by
  cases X
  · exact h.2.1 k h1
  · exact h.2.2.1 k h1
  · exact h.2.2.2.1 k h1
  · exact h.2.2.2.2 k h1

theorem Disj.symm {cfg : Cfg} {s1 s2 : Session} (h : Disj cfg s1 s2) : Disj cfg s2 s1 :=
  ⟨fun e => h.1 e.symm, fun k h2 h1 => h.keys .pdr k h1 h2, fun k h2 h1 => h.keys .far k h1 h2,
   fun k h2 h1 => h.keys .app k h1 h2, fun k h2 h1 => h.keys .sess k h1 h2⟩

/-- the tables ARE the image: under every key of every lookup table lies exactly the value the owning stored session's
rules denote, and nothing lies under a key no stored session has -/
def ImgOf (cfg : Cfg) (t : Tables) (ss : List Session) : Prop :=
  ∀ X k v, (t.tab X).get k = some v ↔ ∃ s ∈ ss, lastVal (s.kv cfg X) k = some v

theorem ImgOf.perm {cfg : Cfg} {t : Tables} {ss ss' : List Session} (h : ImgOf cfg t ss) (p : ss.Perm ss') : ImgOf cfg t ss' := by
  intro X k v
  rw [h X k v]
  constructor <;> rintro ⟨s, hs, hv⟩
  · exact ⟨s, p.mem_iff.mp hs, hv⟩
  · exact ⟨s, p.mem_iff.mpr hs, hv⟩

/-- installing a session whose keys no stored session has -/
theorem ImgOf.add {cfg : Cfg} {t : Tables} {ss : List Session} (h : ImgOf cfg t ss) (s : Session)
    (hd : ∀ s' ∈ ss, Disj cfg s s') : ImgOf cfg (sendAdd cfg t s.pdrs s.fars s.qers) (s :: ss) := by
  intro X k v
  rw [get_sendAdd]
  constructor
  · intro hv
    cases hl : lastVal (s.kv cfg X) k with
    | some v' => rw [hl] at hv; exact ⟨s, List.mem_cons_self, by simpa using hv ▸ hl⟩
    | none =>
      rw [hl] at hv
      obtain ⟨s', hs', hv'⟩ := (h X k v).mp (by simpa using hv)
      exact ⟨s', List.mem_cons_of_mem _ hs', hv'⟩
  · rintro ⟨s', hs', hv'⟩
    rcases List.mem_cons.mp hs' with rfl | hs'
    · rw [hv']; rfl
    · have hk : k ∉ s.keysOf cfg X := fun hk => (hd s' hs').keys X k hk (key_of_lastVal hv')
      rw [lastVal_none _ _ hk]
      exact (h X k v).mpr ⟨s', hs', hv'⟩

/-- removing the entries of one stored session -/
theorem ImgOf.del {cfg : Cfg} {t : Tables} {ss : List Session} (s : Session) (h : ImgOf cfg t (s :: ss))
    (hd : ∀ s' ∈ ss, Disj cfg s s') : ImgOf cfg (sendDel cfg t s.pdrs s.fars s.qers) ss := by
  intro X k v
  rw [get_sendDel]
  constructor
  · intro hv
    by_cases hk : k ∈ s.keysOf cfg X
    · simp [hk] at hv
    · rw [if_neg hk] at hv
      obtain ⟨s', hs', hv'⟩ := (h X k v).mp hv
      rcases List.mem_cons.mp hs' with rfl | hs'
      · exact absurd (key_of_lastVal hv') hk
      · exact ⟨s', hs', hv'⟩
  · rintro ⟨s', hs', hv'⟩
    have hk : k ∉ s.keysOf cfg X := fun hk => (hd s' hs').keys X k hk (key_of_lastVal hv')
    rw [if_neg hk]
    exact (h X k v).mpr ⟨s', List.mem_cons_of_mem _ hs', hv'⟩


/-! ## the association list -/

def flat (l : List (Nat × Conn)) : List Session := l.flatMap (·.2.sessions)
def allSessions (w : World) : List Session := flat w.conns

def connOf (l : List (Nat × Conn)) (a : Nat) : Conn := ((l.find? (·.1 = a)).map (·.2)).getD {}
def setL (l : List (Nat × Conn)) (a : Nat) (c : Conn) : List (Nat × Conn) :=
  if l.any (·.1 = a) then l.map fun e => if e.1 = a then (a, c) else e else l ++ [(a, c)]

theorem conn_eq (w : World) (a : Nat) : w.conn a = connOf w.conns a := rfl
theorem setConn_conns (w : World) (a : Nat) (c : Conn) : (w.setConn a c).conns = setL w.conns a c := by
  unfold World.setConn setL; split <;> rfl

theorem setL_cons_ne (e : Nat × Conn) (l : List (Nat × Conn)) (a : Nat) (c : Conn) (h : e.1 ≠ a) :
    setL (e :: l) a c = e :: setL l a c := by
  unfold setL
  by_cases hl : l.any (·.1 = a) = true
  · simp [hl, h]
  · simp [hl, h]

theorem map_id_of_absent (l : List (Nat × Conn)) (a : Nat) (c : Conn) (h : a ∉ l.map (·.1)) :
    (l.map fun e => if e.1 = a then (a, c) else e) = l := by
  induction l with
  | nil => rfl
  | cons e rest ih =>
    have h1 : e.1 ≠ a := fun x => h (by simp [x])
    have h2 : a ∉ rest.map (·.1) := fun x => h (by simp [x])
    simp [h1, ih h2]

theorem flat_setL (a : Nat) : ∀ (l : List (Nat × Conn)), (l.map (·.1)).Nodup →
    ∃ rest, (flat l).Perm ((connOf l a).sessions ++ rest) ∧ ∀ c : Conn, (flat (setL l a c)).Perm (c.sessions ++ rest)
  | [], _ => ⟨[], by simp [flat, connOf], fun c => by simp [flat, setL]⟩
  | e :: l, hnd => by
    have hnd' : (l.map (·.1)).Nodup := (List.nodup_cons.mp (by simpa using hnd)).2
    have hnot : e.1 ∉ l.map (·.1) := (List.nodup_cons.mp (by simpa using hnd)).1
    by_cases he : e.1 = a
    · refine ⟨flat l, ?_, fun c => ?_⟩
      · simp [flat, connOf, he]
      · have habs : a ∉ l.map (·.1) := he ▸ hnot
        unfold setL
        simp only [List.any_cons, he, decide_true, Bool.true_or, if_true, List.map_cons]
        rw [map_id_of_absent l a c habs]
        simp [flat]
    · obtain ⟨rest, h1, h2⟩ := flat_setL a l hnd'
      refine ⟨e.2.sessions ++ rest, ?_, fun c => ?_⟩
      · have : connOf (e :: l) a = connOf l a := by simp [connOf, List.find?_cons, he]
        rw [this]
        have hf : flat (e :: l) = e.2.sessions ++ flat l := by simp [flat]
        rw [hf]
        exact (List.Perm.append_left _ h1).trans (by
          rw [← List.append_assoc, ← List.append_assoc]
          exact List.Perm.append_right _ List.perm_append_comm)
      · rw [setL_cons_ne e l a c he]
        have hf : flat (e :: setL l a c) = e.2.sessions ++ flat (setL l a c) := by simp [flat]
        rw [hf]
        exact (List.Perm.append_left _ (h2 c)).trans (by
          rw [← List.append_assoc, ← List.append_assoc]
          exact List.Perm.append_right _ List.perm_append_comm)

theorem keys_setL (a : Nat) (c : Conn) (l : List (Nat × Conn)) (h : (l.map (·.1)).Nodup) : ((setL l a c).map (·.1)).Nodup := by
  unfold setL
  by_cases hl : l.any (·.1 = a) = true
  · rw [if_pos hl]
    have : (l.map fun e => if e.1 = a then (a, c) else e).map (·.1) = l.map (·.1) := by
      rw [List.map_map]; apply List.map_congr_left; intro e _
      by_cases he : e.1 = a <;> simp [he]
    rw [this]; exact h
  · rw [if_neg hl, List.map_append]
    have : a ∉ l.map (·.1) := by
      intro hm; obtain ⟨e, he, hea⟩ := List.mem_map.mp hm
      exact hl (List.any_eq_true.mpr ⟨e, he, by simpa using hea⟩)
    rw [List.nodup_append]
    refine ⟨h, by simp, ?_⟩
    intro x hx y hy
    have : y = a := by simpa using hy
    subst this
    exact fun e => this (e ▸ hx)

/-- in a store whose SEIDs are distinct, dropping the sessions with SEID `seid` drops exactly the one found -/
theorem filter_perm (seid : Nat) : ∀ (l : List Session) (s : Session), l.Pairwise (fun x y => x.lseid ≠ y.lseid) →
    l.find? (·.lseid = seid) = some s → l.Perm (s :: l.filter (·.lseid ≠ seid))
  | [], _, _, h => by simp at h
  | x :: rest, s, hp, h => by
    have hp' := (List.pairwise_cons.mp hp)
    by_cases hx : x.lseid = seid
    · have : s = x := by simpa [List.find?_cons, hx] using h.symm
      subst this
      have : rest.filter (·.lseid ≠ seid) = rest := by
        apply List.filter_eq_self.mpr
        intro y hy; have := hp'.1 y hy; simp [← hx]; exact fun e => this e.symm
      have h2 : rest.filter (fun x => !decide (x.lseid = seid)) = rest := by
        rw [← this]; congr 1; funext y; simp
      simp [hx, h2]
    · have hf : rest.find? (·.lseid = seid) = some s := by simpa [List.find?_cons, hx] using h
      have ih := filter_perm seid rest s hp'.2 hf
      have : (x :: rest).filter (·.lseid ≠ seid) = x :: rest.filter (·.lseid ≠ seid) := by simp [hx]
      rw [this]
      exact (List.Perm.cons x ih).trans (List.Perm.swap s x _)


/-! ## the world: invariant and steps -/

structure Inv (cfg : Cfg) (w : World) : Prop where
  keys : (w.conns.map (·.1)).Nodup
  disj : (allSessions w).Pairwise (Disj cfg)
  img : ImgOf cfg w.tables (allSessions w)

theorem Inv.congr {cfg : Cfg} {w w' : World} (h : Inv cfg w) (hc : w'.conns = w.conns) (ht : w'.tables = w.tables) : Inv cfg w' := by
  refine ⟨by rw [hc]; exact h.keys, ?_, ?_⟩
  · unfold allSessions; rw [hc]; exact h.disj
  · unfold allSessions; rw [hc, ht]; exact h.img

theorem pairwise_perm {cfg : Cfg} {l l' : List Session} (p : l.Perm l') (h : l.Pairwise (Disj cfg)) : l'.Pairwise (Disj cfg) :=
  (p.pairwise_iff (fun hxy => Disj.symm hxy)).mp h

/-- an establishment is either refused, leaving store and tables alone, or appends one session with the drawn SEID to
the association's store and upserts that session's rules -/
theorem establish_cases (cfg : Cfg) (w : World) (a lseid : Nat) (r : EstReq) :
    ((establish cfg w a lseid r).1.conns = w.conns ∧ (establish cfg w a lseid r).1.tables = w.tables ∧
      (establish cfg w a lseid r).2.upSeid = none) ∨
    ∃ s : Session, s.lseid = lseid ∧ (establish cfg w a lseid r).1.tables = sendAdd cfg w.tables s.pdrs s.fars s.qers ∧
      (establish cfg w a lseid r).1.conns = setL w.conns a { w.conn a with sessions := (w.conn a).sessions ++ [s] } ∧
      mapFars cfg lseid r.cpIP false r.fars = Except.ok (s.fars) ∧ (establish cfg w a lseid r).2.upSeid = some lseid := by
  unfold establish
  dsimp only
  by_cases hne : r.nodeID ≠ (w.conn a).remoteNode
  · rw [if_pos hne]; exact Or.inl ⟨rfl, rfl, rfl⟩
  · rw [if_neg hne]
    cases hest : estPdrs cfg lseid r.cpIP (w.conn a).apps r.pdrs w.pool w.teid [] with
    | error e => exact Or.inl ⟨rfl, rfl, rfl⟩
    | ok v =>
      obtain ⟨pdrs, pool, g⟩ := v
      dsimp only
      cases hf : mapFars cfg lseid r.cpIP false r.fars with
      | error e => cases e with | reject cause => exact Or.inl ⟨rfl, rfl, rfl⟩
      | ok fars =>
        dsimp only
        refine Or.inr ⟨{ lseid := lseid, rseid := r.cpSeid,
                         pdrs := (markSessionQer (markSessionQer pdrs (r.qers.map fun ie => { parseQER lseid ie with fseidIP := r.cpIP })).2
                                   (r.qers.map fun ie => { parseQER lseid ie with fseidIP := r.cpIP })).2,
                         fars := fars,
                         qers := (markSessionQer pdrs (r.qers.map fun ie => { parseQER lseid ie with fseidIP := r.cpIP })).1 }, rfl, ?_, ?_, rfl, rfl⟩
        · rw [setConn_tables]
        · rw [setConn_conns]

theorem deleteSession_cases (cfg : Cfg) (w : World) (a seid : Nat) :
    ((w.conn a).sessions.find? (·.lseid = seid) = none ∧ (deleteSession cfg w a seid).1 = w) ∨
    ∃ s : Session, (w.conn a).sessions.find? (·.lseid = seid) = some s ∧
      (deleteSession cfg w a seid).1.tables = sendDel cfg w.tables s.pdrs s.fars s.qers ∧
      (deleteSession cfg w a seid).1.conns = setL w.conns a { w.conn a with sessions := (w.conn a).sessions.filter (·.lseid ≠ seid) } := by
  unfold deleteSession
  dsimp only
  cases hfind : (w.conn a).sessions.find? (·.lseid = seid) with
  | none => exact Or.inl ⟨rfl, rfl⟩
  | some s =>
    refine Or.inr ⟨s, rfl, ?_, ?_⟩
    · dsimp only; rw [setConn_tables]
    · dsimp only; rw [setConn_conns]

/-- the store of one association is a part of all stored sessions -/
theorem conn_sublist_perm (w : World) (a : Nat) (h : (w.conns.map (·.1)).Nodup) :
    ∃ rest, (allSessions w).Perm ((w.conn a).sessions ++ rest) ∧
      ∀ c : Conn, (flat (setL w.conns a c)).Perm (c.sessions ++ rest) := flat_setL a w.conns h

theorem connOf_setL (l : List (Nat × Conn)) (a : Nat) (c : Conn) : connOf (setL l a c) a = c := by
  have := conn_setConn { conns := l } a c
  rw [conn_eq, setConn_conns] at this
  exact this

/-- the session an accepted establishment stored: the one with the drawn SEID in the association's store afterwards -/
def newSession (cfg : Cfg) (w : World) (a lseid : Nat) (r : EstReq) : Option Session :=
  ((establish cfg w a lseid r).1.conn a).sessions.find? (·.lseid = lseid)

/-- **establishment keeps the tables the image of the store** (the new session's SEID and keys are not in use) -/
theorem establish_inv (cfg : Cfg) (w : World) (a lseid : Nat) (r : EstReq) (hI : Inv cfg w)
    (henv : (establish cfg w a lseid r).2.upSeid.isSome → ∀ s : Session, newSession cfg w a lseid r = some s → ∀ s' ∈ allSessions w, Disj cfg s s') :
    Inv cfg (establish cfg w a lseid r).1 := by
  rcases establish_cases cfg w a lseid r with ⟨hc, ht, _⟩ | ⟨s, hl, ht, hc, _, _⟩
  · exact hI.congr hc ht
  · obtain ⟨rest, p1, p2⟩ := conn_sublist_perm w a hI.keys
    have hacc : (establish cfg w a lseid r).2.upSeid.isSome := by
      cases hu : (establish cfg w a lseid r).2.upSeid with
      | some _ => rfl
      | none =>
        -- a refused establishment leaves the association's store as it was; here it grew
        exfalso
        have := establish_tables cfg w a lseid r
        unfold establish at hu hc
        dsimp only at hu hc
        by_cases hne : r.nodeID ≠ (w.conn a).remoteNode
        · rw [if_pos hne] at hc
          have h1 := congrArg (fun l => (connOf l a).sessions.length) hc
          simp only [connOf_setL, List.length_append, List.length_singleton] at h1
          rw [← conn_eq] at h1; omega
        · rw [if_neg hne] at hu hc
          cases hest : estPdrs cfg lseid r.cpIP (w.conn a).apps r.pdrs w.pool w.teid [] with
          | error e =>
            simp only [hest] at hc
            have h1 := congrArg (fun l => (connOf l a).sessions.length) hc
            simp only [connOf_setL, List.length_append, List.length_singleton] at h1
            rw [← conn_eq] at h1; omega
          | ok v =>
            obtain ⟨pdrs, pool, g⟩ := v
            simp only [hest] at hu hc
            cases hf : mapFars cfg lseid r.cpIP false r.fars with
            | error e =>
              cases e with | reject cause =>
              simp only [hf] at hc
              have h1 := congrArg (fun l => (connOf l a).sessions.length) hc
              simp only [connOf_setL, List.length_append, List.length_singleton] at h1
              rw [← conn_eq] at h1; omega
            | ok fars => simp only [hf] at hu; simp at hu
    have hconn : ((establish cfg w a lseid r).1.conn a).sessions = (w.conn a).sessions ++ [s] := by
      rw [conn_eq, hc, connOf_setL]
    have hd : ∀ s' ∈ allSessions w, Disj cfg s s' := by
      cases hold : (w.conn a).sessions.find? (·.lseid = lseid) with
      | some old =>
        have hns : newSession cfg w a lseid r = some old := by
          unfold newSession; rw [hconn, List.find?_append, hold]; rfl
        have hmem : old ∈ allSessions w := p1.mem_iff.mpr (List.mem_append_left _ (List.mem_of_find?_eq_some hold))
        exact absurd rfl (henv hacc old hns old hmem).1
      | none =>
        have hns : newSession cfg w a lseid r = some s := by
          unfold newSession; rw [hconn, List.find?_append, hold]; simp [hl]
        exact henv hacc s hns
    have p3 : (allSessions (establish cfg w a lseid r).1).Perm (s :: allSessions w) := by
      unfold allSessions; rw [hc]
      refine (p2 _).trans ?_
      dsimp only
      refine List.Perm.trans ?_ (List.Perm.cons s p1.symm)
      rw [List.append_assoc]
      exact (List.perm_middle).trans (List.Perm.refl _) |>.trans (by simp)
    refine ⟨by rw [hc]; exact keys_setL _ _ _ hI.keys, ?_, ?_⟩
    · exact pairwise_perm p3.symm (List.pairwise_cons.mpr ⟨hd, hI.disj⟩)
    · rw [ht]; exact (hI.img.add s hd).perm p3.symm

/-- what removing a known session from an association's store does to the list of all stored sessions -/
theorem remove_perm (cfg : Cfg) (w : World) (a seid : Nat) (s : Session) (hI : Inv cfg w)
    (hfind : (w.conn a).sessions.find? (·.lseid = seid) = some s) :
    (allSessions w).Perm (s :: flat (setL w.conns a { w.conn a with sessions := (w.conn a).sessions.filter (·.lseid ≠ seid) })) := by
  obtain ⟨rest, p1, p2⟩ := conn_sublist_perm w a hI.keys
  have hpw : ((w.conn a).sessions ++ rest).Pairwise (Disj cfg) := pairwise_perm p1 hI.disj
  have hpc : (w.conn a).sessions.Pairwise (fun x y => x.lseid ≠ y.lseid) :=
    (List.pairwise_append.mp hpw).1.imp (fun h => h.1)
  have pf := filter_perm seid _ s hpc hfind
  refine p1.trans ((List.Perm.append_right rest pf).trans ?_)
  exact List.Perm.cons s (p2 { w.conn a with sessions := (w.conn a).sessions.filter (·.lseid ≠ seid) }).symm

/-- **deletion keeps the tables the image of the store** -/
theorem delete_inv (cfg : Cfg) (w : World) (a seid : Nat) (hI : Inv cfg w) : Inv cfg (deleteSession cfg w a seid).1 := by
  rcases deleteSession_cases cfg w a seid with ⟨_, hw⟩ | ⟨s, hfind, ht, hc⟩
  · rw [hw]; exact hI
  · have p := remove_perm cfg w a seid s hI hfind
    have hpw := pairwise_perm p hI.disj
    have hd := (List.pairwise_cons.mp hpw).1
    refine ⟨by rw [hc]; exact keys_setL _ _ _ hI.keys, ?_, ?_⟩
    · unfold allSessions; rw [hc]; exact (List.pairwise_cons.mp hpw).2
    · unfold allSessions; rw [hc, ht]; exact ImgOf.del s (hI.img.perm p) hd

/-- Session Report Response "session context not found": same effect on store and tables as a deletion -/
theorem report_inv (cfg : Cfg) (w : World) (a seid : Nat) (hI : Inv cfg w) : Inv cfg (reportContextNotFound cfg w a seid) := by
  unfold reportContextNotFound
  dsimp only
  cases hfind : (w.conn a).sessions.find? (·.lseid = seid) with
  | none => exact hI
  | some s =>
    dsimp only
    have p := remove_perm cfg w a seid s hI hfind
    have hpw := pairwise_perm p hI.disj
    have hd := (List.pairwise_cons.mp hpw).1
    have hc : ((dropSession cfg w s).setConn a { w.conn a with sessions := (w.conn a).sessions.filter (·.lseid ≠ seid) }).conns =
        setL w.conns a { w.conn a with sessions := (w.conn a).sessions.filter (·.lseid ≠ seid) } := by
      rw [setConn_conns]; rfl
    have ht : ((dropSession cfg w s).setConn a { w.conn a with sessions := (w.conn a).sessions.filter (·.lseid ≠ seid) }).tables =
        sendDel cfg w.tables s.pdrs s.fars s.qers := by
      rw [setConn_tables]; rfl
    refine ⟨by rw [hc]; exact keys_setL _ _ _ hI.keys, ?_, ?_⟩
    · unfold allSessions; rw [hc]; exact (List.pairwise_cons.mp hpw).2
    · unfold allSessions; rw [hc, ht]; exact ImgOf.del s (hI.img.perm p) hd


/-! ## association shutdown (release, timeout, heartbeat failure, stop) -/

theorem foldl_drop_conns (cfg : Cfg) : ∀ (ss : List Session) (w : World), (ss.foldl (dropSession cfg) w).conns = w.conns
  | [], _ => rfl
  | s :: rest, w => by rw [List.foldl_cons, foldl_drop_conns cfg rest]; rfl

theorem foldl_drop_tables (cfg : Cfg) : ∀ (ss : List Session) (w : World),
    (ss.foldl (dropSession cfg) w).tables = ss.foldl (fun t s => sendDel cfg t s.pdrs s.fars s.qers) w.tables
  | [], _ => rfl
  | s :: rest, w => by rw [List.foldl_cons, foldl_drop_tables cfg rest]; rfl

theorem ImgOf.delAll {cfg : Cfg} : ∀ (ss rest : List Session) (t : Tables), ImgOf cfg t (ss ++ rest) → (ss ++ rest).Pairwise (Disj cfg) →
    ImgOf cfg (ss.foldl (fun t s => sendDel cfg t s.pdrs s.fars s.qers) t) rest
  | [], _, _, h, _ => h
  | s :: ss, rest, t, h, hp => by
    have hp' := List.pairwise_cons.mp hp
    exact ImgOf.delAll ss rest _ (ImgOf.del s h hp'.1) hp'.2

theorem flat_filter (a : Nat) : ∀ (l : List (Nat × Conn)), (l.map (·.1)).Nodup →
    (flat l).Perm ((connOf l a).sessions ++ flat (l.filter (·.1 ≠ a)))
  | [], _ => by simp [flat, connOf]
  | e :: l, hnd => by
    have hnd' : (l.map (·.1)).Nodup := (List.nodup_cons.mp (by simpa using hnd)).2
    have hnot : e.1 ∉ l.map (·.1) := (List.nodup_cons.mp (by simpa using hnd)).1
    by_cases he : e.1 = a
    · have habs : a ∉ l.map (·.1) := he ▸ hnot
      have hf : l.filter (·.1 ≠ a) = l := by
        apply List.filter_eq_self.mpr
        intro x hx; simp; exact fun e => habs (e ▸ List.mem_map_of_mem hx)
      have h2 : (e :: l).filter (·.1 ≠ a) = l := by simp [he]; simpa using hf
      rw [h2]
      simp [flat, connOf, he]
    · have hc : connOf (e :: l) a = connOf l a := by simp [connOf, List.find?_cons, he]
      have h2 : (e :: l).filter (·.1 ≠ a) = e :: l.filter (·.1 ≠ a) := by simp [he]
      rw [hc, h2]
      have hf : ∀ l' : List (Nat × Conn), flat (e :: l') = e.2.sessions ++ flat l' := fun l' => by simp [flat]
      rw [hf, hf]
      exact (List.Perm.append_left _ (flat_filter a l hnd')).trans (by
        rw [← List.append_assoc, ← List.append_assoc]
        exact List.Perm.append_right _ List.perm_append_comm)

/-- **an association ending keeps the tables the image of the remaining store**: every session of the association is
removed from the datapath, the others are untouched -/
theorem shutdown_inv (cfg : Cfg) (w : World) (a : Nat) (hI : Inv cfg w) : Inv cfg (shutdownConn cfg w a) := by
  unfold shutdownConn
  dsimp only
  have p := flat_filter a w.conns hI.keys
  have hpw : ((w.conn a).sessions ++ flat (w.conns.filter (·.1 ≠ a))).Pairwise (Disj cfg) := pairwise_perm p hI.disj
  refine ⟨?_, ?_, ?_⟩
  · dsimp only; rw [foldl_drop_conns]
    exact (List.Sublist.map _ List.filter_sublist).nodup hI.keys
  · unfold allSessions; dsimp only; rw [foldl_drop_conns]
    exact (List.pairwise_append.mp hpw).2.1
  · unfold allSessions; dsimp only; rw [foldl_drop_conns, foldl_drop_tables]
    exact ImgOf.delAll _ _ _ (hI.img.perm p) hpw

/-! ## the tie to `Agent.image`, start-up, and every history -/

theorem image_get (cfg : Cfg) : ∀ (ss : List Session) (t : Tables) (pre : List Session), ImgOf cfg t pre →
    (pre ++ ss).Pairwise (Disj cfg) →
    ImgOf cfg (ss.foldl (fun t s => sendAdd cfg t s.pdrs s.fars s.qers) t) (pre ++ ss)
  | [], t, pre, h, _ => by simpa using h
  | s :: ss, t, pre, h, hp => by
    have hps : (s :: (pre ++ ss)).Pairwise (Disj cfg) := pairwise_perm List.perm_middle hp
    have hd : ∀ s' ∈ pre, Disj cfg s s' := fun s' hs' => (List.pairwise_cons.mp hps).1 s' (List.mem_append_left _ hs')
    have h1 : ImgOf cfg (sendAdd cfg t s.pdrs s.fars s.qers) (pre ++ [s]) :=
      (h.add s hd).perm (by simpa using (List.perm_append_comm (l₁ := [s]) (l₂ := pre)))
    have := image_get cfg ss _ (pre ++ [s]) h1 (by simpa using hp)
    simpa using this

theorem imgOf_empty (cfg : Cfg) : ImgOf cfg {} [] := by
  intro X k v
  cases X <;> simp [Tables.tab, Table.get]

/-- **the invariant says what `Agent.image` says**: whenever it holds, every lookup table, as a map, equals the table
obtained by installing every stored session's rules on empty tables -/
theorem inv_iff_image (cfg : Cfg) (w : World) (hI : Inv cfg w) (X : Tb) (k : String) :
    (w.tables.tab X).get k = ((image cfg w).tab X).get k := by
  have him : ImgOf cfg (image cfg w) (allSessions w) := by
    have := image_get cfg (allSessions w) {} [] (imgOf_empty cfg) (by simpa using hI.disj)
    simpa [image, allSessions, flat] using this
  cases hv : ((image cfg w).tab X).get k with
  | some v => exact (hI.img X k v).mpr ((him X k v).mp hv)
  | none =>
    cases hv' : (w.tables.tab X).get k with
    | none => rfl
    | some v => rw [(him X k v).mpr ((hI.img X k v).mp hv')] at hv; cases hv

/-- a new incarnation: `clearState` wiped the lookup tables, no association, no session -/
theorem inv_start (cfg : Cfg) (pool : Option Pool.P) (g : Teid.G) : Inv cfg { pool := pool, teid := g } :=
  ⟨by simp, by simp [allSessions, flat], by simpa [allSessions, flat] using imgOf_empty cfg⟩

theorem setL_same_sessions (cfg : Cfg) (w : World) (a : Nat) (c : Conn) (hI : Inv cfg w) (hs : c.sessions = (w.conn a).sessions)
    (w' : World) (hc : w'.conns = setL w.conns a c) (ht : w'.tables = w.tables) : Inv cfg w' := by
  obtain ⟨rest, p1, p2⟩ := conn_sublist_perm w a hI.keys
  have p : (allSessions w).Perm (allSessions w') := by
    unfold allSessions; rw [hc]; exact p1.trans (by rw [← hs]; exact (p2 c).symm)
  exact ⟨by rw [hc]; exact keys_setL _ _ _ hI.keys, pairwise_perm p hI.disj, by rw [ht]; exact hI.img.perm p⟩

end Agent
