import Upf.Proofs.Up4Basic
/-!
C15, last clause, on the model: when `sendCreate` / `sendUpdate` report success, every Write RPC they issued was served
(not failed as a whole) and every update in it was answered OK or ALREADY_EXISTS — for every environment, i.e. whichever
writes fail. Contrapositive: one failed write (other than the tolerated ALREADY_EXISTS) and the request is refused.
-/
namespace Up4

/-- a Write that did not fail: served, every status OK or ALREADY_EXISTS -/
def Rpc.good (r : Rpc) : Bool := r.inj != .rpc && r.codes.all fun c => c == codeOK || c == codeAlreadyExists

/-- `c'` extends the log of `c`, and if `ok` the new part is all good -/
def Ext (c c' : Ctx) (ok : Bool) : Prop := ∃ l, c'.log = c.log ++ l ∧ (ok = true → ∀ r ∈ l, r.good = true)

theorem Ext.refl (c : Ctx) (ok : Bool) : Ext c c ok := ⟨[], by simp, by simp⟩

theorem Ext.of_log_eq {c c' : Ctx} (h : c'.log = c.log) (ok : Bool) : Ext c c' ok := ⟨[], by simp [h], by simp⟩

theorem Ext.trans {c c1 c2 : Ctx} {ok : Bool} (h1 : Ext c c1 true) (h2 : Ext c1 c2 ok) : Ext c c2 ok := by
  obtain ⟨l1, e1, g1⟩ := h1
  obtain ⟨l2, e2, g2⟩ := h2
  refine ⟨l1 ++ l2, by rw [e2, e1, List.append_assoc], ?_⟩
  intro hok r hr
  rcases List.mem_append.mp hr with h | h
  · exact g1 rfl r h
  · exact g2 hok r h

theorem Ext.false {c c' : Ctx} (h : ∃ l, c'.log = c.log ++ l) : Ext c c' false := by
  obtain ⟨l, e⟩ := h; exact ⟨l, e, by simp⟩

theorem Ext.weaken {c c' : Ctx} {ok : Bool} (h : Ext c c' true) : Ext c c' ok := by
  obtain ⟨l, e, g⟩ := h; exact ⟨l, e, fun _ => g rfl⟩

/-- a Write reported as OK was good -/
theorem write_ext_ok (c : Ctx) (ups : List Upd) : Ext c (write c ups).1 ((write c ups).2 == .ok) := by
  unfold write
  by_cases hinj : nextInj c = .rpc
  · simp only [hinj, if_true]
    exact ⟨[_], rfl, by simp⟩
  · simp only [hinj, if_false]
    refine ⟨[_], rfl, ?_⟩
    intro hok r hr
    simp only [List.mem_singleton] at hr
    subst hr
    by_cases hall : ((c.st.srv.batch (nextInj c) ups 0).2.all fun x => x == codeOK) = true
    · simp only [Rpc.good, Bool.and_eq_true, bne_iff_ne, ne_eq]
      refine ⟨hinj, ?_⟩
      simp only [List.all_eq_true] at hall ⊢
      intro x hx
      have := hall x hx
      simp [this]
    · simp [hall] at hok

/-- a Write whose outcome `modifyUP4ForwardingConfiguration` lets pass for an INSERT or MODIFY was good -/
theorem write_ext_tolerated (c : Ctx) (ups : List Upd) (op : Op) (hop : op ≠ .delete) :
    Ext c (write c ups).1 (tolerated op (write c ups).2) := by
  unfold write
  by_cases hinj : nextInj c = .rpc
  · simp only [hinj, if_true]
    exact ⟨[_], rfl, by simp [tolerated]⟩
  · simp only [hinj, if_false]
    refine ⟨[_], rfl, ?_⟩
    intro hok r hr
    simp only [List.mem_singleton] at hr
    subst hr
    simp only [Rpc.good, Bool.and_eq_true, bne_iff_ne, ne_eq]
    refine ⟨hinj, ?_⟩
    by_cases hall : ((c.st.srv.batch (nextInj c) ups 0).2.all fun x => x == codeOK) = true
    · simp only [List.all_eq_true] at hall ⊢
      intro x hx
      have := hall x hx
      simp [this]
    · simp only [hall, tolerated] at hok
      simp only [Bool.false_eq_true, if_false, List.all_eq_true] at hok ⊢
      intro x hx
      have := hok x hx
      have hd : (op == Op.delete) = false := by cases op <;> simp_all
      simpa [hd, Bool.or_comm] using this

theorem write_log (c : Ctx) (ups : List Upd) : ∃ l, (write c ups).1.log = c.log ++ l := by
  unfold write
  by_cases h : nextInj c = .rpc <;> simp only [h, if_true, if_false] <;> exact ⟨[_], rfl⟩

theorem pop_log {c c' : Ctx} {free f : List Nat} {x : Nat} (h : pop c free = some (x, f, c')) : c'.log = c.log := by
  unfold pop at h
  split at h
  · cases h
  · split at h
    · split at h <;> (cases h; rfl)
    · cases h; rfl

/-- changing the bookkeeping does not touch the log -/
theorem ext_st (c : Ctx) (st : St) (ok : Bool) : Ext c { c with st := st } ok := Ext.of_log_eq rfl ok

theorem allocCounters_ext : ∀ (n : Nat) (todo done : List Agent.Pdr) (c : Ctx),
    Ext c (allocCounters c n done todo).1 (allocCounters c n done todo).2.2
  | 0, _, _, c => by simp [allocCounters, Ext.refl]
  | _ + 1, [], _, c => by simp [allocCounters, Ext.refl]
  | n + 1, p :: todo, done, c => by
    unfold allocCounters
    split
    · exact Ext.false ⟨[], by simp⟩
    · rename_i id free c1 hp
      have hl := pop_log hp
      simp only
      split
      · rename_i hok
        refine Ext.trans ?_ (allocCounters_ext n todo _ _)
        have := write_ext_ok { c1 with st := { c1.st with ctrFree := free } } [⟨.modify, .counter Gen.P4Constants.CounterPreQosPipePreQosCounter id⟩, ⟨.modify, .counter Gen.P4Constants.CounterPostQosPipePostQosCounter id⟩]
        rw [hok] at this
        obtain ⟨l, e, g⟩ := this
        exact ⟨l, by rw [e]; simp [hl], g⟩
      · obtain ⟨l, e⟩ := write_log { c1 with st := { c1.st with ctrFree := free } } [⟨.modify, .counter Gen.P4Constants.CounterPreQosPipePreQosCounter id⟩, ⟨.modify, .counter Gen.P4Constants.CounterPostQosPipePostQosCounter id⟩]
        exact Ext.false ⟨l, by rw [e]; simp [hl]⟩

/-- generic step: a context with the same log as `c0`, one Write, then anything that keeps the log -/
theorem ext_write_ok {c0 c1 : Ctx} (hl : c1.log = c0.log) (ups : List Upd) :
    Ext c0 (write c1 ups).1 ((write c1 ups).2 == .ok) := by
  obtain ⟨l, e, g⟩ := write_ext_ok c1 ups
  exact ⟨l, by rw [e, hl], g⟩

theorem ext_write_any {c0 c1 : Ctx} (hl : c1.log = c0.log) (ups : List Upd) : ∃ l, (write c1 ups).1.log = c0.log ++ l := by
  obtain ⟨l, e⟩ := write_log c1 ups
  exact ⟨l, by rw [e, hl]⟩

theorem Ext.st_right {c c' : Ctx} {ok : Bool} (h : Ext c c' ok) (st : St) : Ext c { c' with st := st } ok := by
  obtain ⟨l, e, g⟩ := h; exact ⟨l, e, g⟩

theorem configureSessMeter_ext (c : Ctx) (q : Agent.Qer) :
    Ext c (configureSessMeter c q).1 (configureSessMeter c q).2.isSome := by
  unfold configureSessMeter
  split
  · exact Ext.refl _ _
  · rename_i ul free c1 h1
    have l1 := pop_log h1
    simp only
    split
    · exact Ext.of_log_eq (by simp [l1]) _
    · rename_i dl free2 c2 h2
      have l2 := pop_log h2
      split
      · rename_i hok
        have := ext_write_ok (c0 := c) (c1 := { c2 with st := { c2.st with sessFree := free2 } }) (by simp [l2, l1])
          [⟨.modify, .meter Gen.P4Constants.MeterPreQosPipeSessionMeter ul (some (meterCfg q.ulMbr))⟩,
           ⟨.modify, .meter Gen.P4Constants.MeterPreQosPipeSessionMeter dl (some (meterCfg q.dlMbr))⟩]
        rw [hok] at this
        simpa using this
      · obtain ⟨l, e⟩ := ext_write_any (c0 := c) (c1 := { c2 with st := { c2.st with sessFree := free2 } }) (by simp [l2, l1])
          [⟨.modify, .meter Gen.P4Constants.MeterPreQosPipeSessionMeter ul (some (meterCfg q.ulMbr))⟩,
           ⟨.modify, .meter Gen.P4Constants.MeterPreQosPipeSessionMeter dl (some (meterCfg q.dlMbr))⟩]
        exact Ext.false ⟨l, by simpa using e⟩

theorem configureAppMeter_ext (c : Ctx) (q : Agent.Qer) (bidir : Bool) :
    Ext c (configureAppMeter c q bidir).1 (configureAppMeter c q bidir).2.isSome := by
  unfold configureAppMeter
  split
  · exact Ext.refl _ _
  · rename_i ul free c1 h1
    have l1 := pop_log h1
    simp only
    split
    · exact Ext.of_log_eq (by simp [l1]) _
    · rename_i dl c2 hsec
      have l2 : c2.log = c.log := by
        cases bidir
        · simp at hsec; rw [← hsec.2]; simp [l1]
        · simp only [if_true] at hsec
          split at hsec
          · cases hsec
          · rename_i h2
            have := pop_log h2
            simp only [Option.some.injEq, Prod.mk.injEq] at hsec
            rw [← hsec.2]; simp [this, l1]
      generalize ((if ul ≠ 0 then [(⟨.modify, .meter Gen.P4Constants.MeterPreQosPipeAppMeter ul (some (meterCfg q.ulMbr))⟩ : Upd)] else []) ++
           (if dl ≠ ul then [(⟨.modify, .meter Gen.P4Constants.MeterPreQosPipeAppMeter dl (some (meterCfg q.dlMbr))⟩ : Upd)] else [])) = ups
      by_cases hok : ((write c2 ups).2 == .ok) = true
      · simp only [hok, if_true]
        have := ext_write_ok (c0 := c) (c1 := c2) l2 ups
        rw [hok] at this
        simpa using this
      · simp only [hok, if_false]
        obtain ⟨l, e⟩ := ext_write_any (c0 := c) (c1 := c2) l2 ups
        exact Ext.false ⟨l, by simpa using e⟩

theorem configureMeters_ext (n : Nat) : ∀ (qs : List Agent.Qer) (c : Ctx),
    Ext c (configureMeters n c qs).1 (configureMeters n c qs).2
  | [], c => by simp [configureMeters, Ext.refl]
  | q :: rest, c => by
    unfold configureMeters
    have h1 : Ext c (if q.session then configureSessMeter c q else configureAppMeter c q (n == 1)).1
        (if q.session then configureSessMeter c q else configureAppMeter c q (n == 1)).2.isSome := by
      split
      · exact configureSessMeter_ext c q
      · exact configureAppMeter_ext c q _
    generalize (if q.session then configureSessMeter c q else configureAppMeter c q (n == 1)) = r at h1
    obtain ⟨c1, m⟩ := r
    cases m with
    | none => obtain ⟨l, e, _⟩ := h1; exact Ext.false ⟨l, e⟩
    | some m =>
      simp only
      exact Ext.trans (Ext.st_right (by simpa using h1) _) (configureMeters_ext n rest _)

theorem addOrUpdatePeer_ext (cfg : Cfg4) (c : Ctx) (f : Agent.Far) :
    Ext c (addOrUpdatePeer cfg c f).1 (addOrUpdatePeer cfg c f).2 := by
  unfold addOrUpdatePeer
  cases hm : mapGet c.st.peers (tpOf cfg f) with
  | some pr =>
    simp only [hm]
    cases hb : buildPeer pr.id (tpOf cfg f) with
    | none => simp only [hb]; exact Ext.false ⟨[], by simp⟩
    | some e => simp only [hb]; apply ext_write_ok; rfl
  | none =>
    simp only [hm]
    cases hp : c.st.peerPool with
    | nil => simp only [hp]; exact Ext.false ⟨[], by simp⟩
    | cons id pool =>
      simp only [hp]
      cases hb : buildPeer id (tpOf cfg f) with
      | none => simp only [hb]; exact Ext.false ⟨[], by simp⟩
      | some e =>
        simp only [hb]
        generalize hc1 : ({ c with st := { c.st with peerPool := pool } } : Ctx) = c1
        have l1 : c1.log = c.log := by rw [← hc1]
        by_cases hok : ((write c1 [⟨.insert, .tbl e⟩]).2 == .ok) = true
        · simp only [hok, if_true]
          have := ext_write_ok (c0 := c) (c1 := c1) l1 [⟨.insert, .tbl e⟩]
          rw [hok] at this
          exact Ext.st_right this _
        · simp only [hok]
          obtain ⟨l, e⟩ := ext_write_any (c0 := c) (c1 := c1) l1 [⟨.insert, .tbl e⟩]
          exact Ext.false ⟨l, e⟩

theorem updatePeers_ext (cfg : Cfg4) : ∀ (fs : List Agent.Far) (c : Ctx),
    Ext c (updatePeers cfg c fs).1 (updatePeers cfg c fs).2
  | [], c => by simp [updatePeers, Ext.refl]
  | f :: rest, c => by
    unfold updatePeers
    split
    · have h := addOrUpdatePeer_ext cfg c f
      generalize addOrUpdatePeer cfg c f = r at h
      obtain ⟨c1, b⟩ := r
      cases b
      · obtain ⟨l, e, _⟩ := h; exact Ext.false ⟨l, e⟩
      · exact Ext.trans h (updatePeers_ext cfg rest c1)
    · exact updatePeers_ext cfg rest c

theorem modifyFwd_ext (cfg : Cfg4) (fars : List Agent.Far) (qers : List Agent.Qer) (op : Op) (hop : op ≠ .delete) :
    ∀ (ps : List Agent.Pdr) (c : Ctx), Ext c (modifyFwd cfg fars qers op c ps).1 (modifyFwd cfg fars qers op c ps).2
  | [], c => by simp [modifyFwd, Ext.refl]
  | p :: rest, c => by
    unfold modifyFwd
    generalize prepare cfg fars qers op c.st p = r
    obtain ⟨st, oe⟩ := r
    cases oe with
    | none => exact Ext.false ⟨[], by simp⟩
    | some entries =>
      simp only
      generalize hups : (entries.map fun e => (⟨op, .tbl e⟩ : Upd)) = ups
      have hw := write_ext_tolerated { c with st := st } ups op hop
      by_cases ht : tolerated op (write { c with st := st } ups).2 = true
      · simp only [ht, if_true]
        rw [ht] at hw
        obtain ⟨l, e, g⟩ := hw
        exact Ext.trans ⟨l, e, g⟩ (modifyFwd_ext cfg fars qers op hop rest _)
      · simp only [ht]
        obtain ⟨l, e, _⟩ := hw
        exact Ext.false ⟨l, e⟩

/-- **sendCreate**: success means every Write of the establishment was good -/
theorem sendCreate_ext (cfg : Cfg4) (c : Ctx) (all updated : Rules) :
    Ext c (sendCreate cfg c all updated).1 (sendCreate cfg c all updated).2.2 := by
  unfold sendCreate
  have h1 := allocCounters_ext updated.pdrs.length all.pdrs [] c
  generalize allocCounters c updated.pdrs.length [] all.pdrs = r1 at h1
  obtain ⟨c1, pdrs, ok1⟩ := r1
  cases ok1
  · obtain ⟨l, e, _⟩ := h1; exact Ext.false ⟨l, e⟩
  · simp only [Bool.not_true, Bool.false_eq_true, if_false]
    have h2 := configureMeters_ext updated.qers.length updated.qers { c1 with st := updateMaps c1.st updated.pdrs }
    generalize configureMeters updated.qers.length { c1 with st := updateMaps c1.st updated.pdrs } updated.qers = r2 at h2
    obtain ⟨c2, ok2⟩ := r2
    have h12 : Ext c c2 ok2 := Ext.trans (Ext.st_right h1 _) h2
    cases ok2
    · obtain ⟨l, e, _⟩ := h12; exact Ext.false ⟨l, e⟩
    · simp only [Bool.not_true, Bool.false_eq_true, if_false]
      have h3 := updatePeers_ext cfg updated.fars c2
      generalize updatePeers cfg c2 updated.fars = r3 at h3
      obtain ⟨c3, ok3⟩ := r3
      have h13 : Ext c c3 ok3 := Ext.trans h12 h3
      cases ok3
      · obtain ⟨l, e, _⟩ := h13; exact Ext.false ⟨l, e⟩
      · simp only [Bool.not_true, Bool.false_eq_true, if_false]
        exact Ext.trans h13 (modifyFwd_ext cfg all.fars all.qers .insert (by decide) pdrs c3)

/-- **sendUpdate**: success means every Write of the modification's create/update part was good -/
theorem sendUpdate_ext (cfg : Cfg4) (c : Ctx) (all updated : Rules) :
    Ext c (sendUpdate cfg c all updated).1 (sendUpdate cfg c all updated).2 := by
  unfold sendUpdate
  dsimp only
  have h3 := updatePeers_ext cfg updated.fars { c with st := updateMaps c.st updated.pdrs }
  generalize updatePeers cfg { c with st := updateMaps c.st updated.pdrs } updated.fars = r3 at h3
  obtain ⟨c3, ok3⟩ := r3
  have h13 : Ext c c3 ok3 := by obtain ⟨l, e, g⟩ := h3; exact ⟨l, e, g⟩
  cases ok3
  · obtain ⟨l, e, _⟩ := h13; exact Ext.false ⟨l, e⟩
  · simp only [Bool.not_true, Bool.false_eq_true, if_false]
    exact Ext.trans h13 (modifyFwd_ext cfg all.fars all.qers .modify (by decide) all.pdrs c3)

end Up4
