import Upf.Model.Mark

namespace Mark

theorem intersect_sub_right (a b : List Nat) : ∀ x ∈ intersect a b, x ∈ b := by
  intro x hx; simp [intersect] at hx; exact hx.2

theorem intersect_sub_left (a b : List Nat) : ∀ x ∈ intersect a b, x ∈ a := by
  intro x hx; simp [intersect] at hx; exact hx.1

/-- every candidate is in every PDR's list and in the starting list -/
theorem common_sub : ∀ (ls : List (List Nat)) (acc r : List Nat), common acc ls = some r →
    (∀ x ∈ r, x ∈ acc) ∧ ∀ l ∈ ls, ∀ x ∈ r, x ∈ l := by
  intro ls
  induction ls with
  | nil => intro acc r h; simp [common] at h; subst h; exact ⟨fun _ h => h, fun _ h => by cases h⟩
  | cons l ls ih =>
    intro acc r h
    simp only [common] at h
    split at h
    · cases h
    · obtain ⟨h1, h2⟩ := ih _ r h
      refine ⟨fun x hx => intersect_sub_left acc l x (h1 x hx), ?_⟩
      intro l' hl' x hx
      rcases List.mem_cons.mp hl' with rfl | hin
      · exact intersect_sub_right acc _ x (h1 x hx)
      · exact h2 l' hin x hx

/-- the chosen index points at a candidate without GBR -/
theorem choose_spec (cands : List Nat) : ∀ (qs : List Qer) (i : Nat) (best : Option (Nat × Nat)) (all : List Qer),
    (∀ j m, best = some (j, m) → ∃ q, all[j]? = some q ∧ cands.contains q.id = true ∧ q.gbr = false) →
    (∀ k q, qs[k]? = some q → all[i + k]? = some q) →
    ∀ j m, choose cands qs i best = some (j, m) → ∃ q, all[j]? = some q ∧ cands.contains q.id = true ∧ q.gbr = false := by
  intro qs
  induction qs with
  | nil => intro i best all hb _ j m h; simp [choose] at h; exact hb j m h
  | cons q qs ih =>
    intro i best all hb hall j m h
    have hq : all[i]? = some q := by simpa using hall 0 q (by simp)
    have hshift : ∀ k q', qs[k]? = some q' → all[i + 1 + k]? = some q' := by
      intro k q' hk
      have := hall (k+1) q' (by simpa using hk)
      rwa [show i + (k + 1) = i + 1 + k by omega] at this
    simp only [choose] at h
    split at h
    · rename_i hc
      have hnew : ∀ j m, some (i, q.ulMbr) = some (j, m) → ∃ q', all[j]? = some q' ∧ cands.contains q'.id = true ∧ q'.gbr = false := by
        intro j m e; cases e; exact ⟨q, hq, hc.1, by simpa using hc.2⟩
      split at h
      · exact ih (i+1) _ all hnew hshift j m h
      · split at h
        · exact ih (i+1) _ all hnew hshift j m h
        · exact ih (i+1) _ all hb hshift j m h
    · exact ih (i+1) _ all hb hshift j m h

/-- soundness of one marking call: a QER that this call marks is referenced by every PDR -/
theorem mark_sound (pdrLists : List (List Nat)) (qers : List Qer) (k : Nat) (q q' : Qer)
    (hq : qers[k]? = some q) (hq' : (mark pdrLists qers)[k]? = some q')
    (hnew : q.session = false) (hmarked : q'.session = true) :
    ∀ l ∈ pdrLists, q'.id ∈ l := by
  unfold mark at hq'
  split at hq'
  · rw [hq] at hq'; cases hq'; simp [hnew] at hmarked
  · rename_i last hlast
    split at hq'
    · rw [hq] at hq'; cases hq'; simp [hnew] at hmarked
    · split at hq'
      · rw [hq] at hq'; cases hq'; simp [hnew] at hmarked
      · rename_i cands hc
        split at hq'
        · rw [hq] at hq'; cases hq'; simp [hnew] at hmarked
        · rename_i i m hch
          obtain ⟨qi, hqi, hcand, _⟩ := choose_spec cands qers 0 none qers (by intro j m e; cases e)
            (by intro k q h; simpa using h) i m hch
          by_cases hik : i = k
          · subst hik
            have hlt : i < qers.length := by
              rcases Nat.lt_or_ge i qers.length with h | h
              · exact h
              · rw [List.getElem?_eq_none h] at hqi; cases hqi
            rw [List.getElem?_set_self hlt] at hq'
            cases hq'
            rw [hqi] at hq ⊢
            simp only [Option.getD_some]
            have hin : qi.id ∈ cands := by simpa using hcand
            exact fun l hl => (common_sub pdrLists last cands hc).2 l hl qi.id hin
          · rw [List.getElem?_set_ne hik] at hq'
            rw [hq] at hq'; cases hq'; simp [hnew] at hmarked

#print axioms mark_sound

end Mark

