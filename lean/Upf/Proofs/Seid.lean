import Upf.Model.Seid
namespace Seid

theorem pick_fresh (d : Nat → Nat) (live : List Nat) : ∀ (f i x j : Nat), pick d live f i = (some x, j) →
    x ≠ 0 ∧ x ∉ live ∧ ∃ k, k < f ∧ x = d (i + k) ∧ j = i + k + 1 := by
  intro f
  induction f with
  | zero => intro i x j h; simp [pick] at h
  | succ n ih =>
    intro i x j h
    unfold pick at h
    split at h
    · obtain ⟨h1, h2, k, hk, e1, e2⟩ := ih (i+1) x j h
      exact ⟨h1, h2, k+1, by omega, by rw [e1]; congr 1; omega, by omega⟩
    · rename_i hc
      cases h
      have : ¬ d i = 0 ∧ ¬ d i ∈ live := by simpa using hc
      exact ⟨this.1, this.2, 0, by omega, rfl, rfl⟩

theorem pick_none_iff (d : Nat → Nat) (live : List Nat) : ∀ (f i : Nat),
    (pick d live f i).1 = none ↔ ∀ k, k < f → (d (i + k) = 0 ∨ d (i + k) ∈ live) := by
  intro f
  induction f with
  | zero => intro i; simp [pick]
  | succ n ih =>
    intro i
    unfold pick
    split
    · rename_i hc
      rw [ih (i+1)]
      constructor
      · intro h k hk
        cases k with
        | zero => simpa using hc
        | succ k => have := h k (by omega); rwa [show i + 1 + k = i + (k + 1) by omega] at this
      · intro h k hk
        have := h (k+1) (by omega); rwa [show i + (k + 1) = i + 1 + k by omega] at this
    · rename_i hc
      simp only [reduceCtorEq, false_iff]
      intro h
      exact hc (by simpa using h 0 (by omega))

end Seid
