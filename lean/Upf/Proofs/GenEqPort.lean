import Upf.Gen.Leaf
import Upf.Model.PortRange
/-! T1 tie for C17: the leaf predicates regenerated from parse_pdr.go equal the hand model. -/
namespace GenEq
open Tern

theorem isWildcard_eq (lo hi : BitVec 16) :
    Gen.Leaf.portRange_isWildcardMatch lo hi = decide (PR.isWildcard ⟨lo, hi⟩) := by
  apply Bool.eq_iff_iff.mpr
  simp only [decide_eq_true_eq]
  simp [Gen.Leaf.portRange_isWildcardMatch, PR.isWildcard]

theorem isExact_eq (lo hi : BitVec 16) :
    Gen.Leaf.portRange_isExactMatch lo hi = decide (PR.isExact ⟨lo, hi⟩) := by
  apply Bool.eq_iff_iff.mpr
  simp only [decide_eq_true_eq]
  simp [Gen.Leaf.portRange_isExactMatch, PR.isExact]

theorem isRange_eq (lo hi : BitVec 16) :
    Gen.Leaf.portRange_isRangeMatch lo hi = decide (PR.isRange ⟨lo, hi⟩) := by
  apply Bool.eq_iff_iff.mpr
  simp only [decide_eq_true_eq]
  simp [Gen.Leaf.portRange_isRangeMatch, PR.isRange, isWildcard_eq, isExact_eq]

theorem width_eq (lo hi : BitVec 16) :
    Gen.Leaf.portRange_Width lo hi = PR.width ⟨lo, hi⟩ := by
  simp [Gen.Leaf.portRange_Width, PR.width, isWildcard_eq]

theorem newRange_eq (lo hi : BitVec 16) :
    Gen.Leaf.newRangeMatchPortRange lo hi = ((newRange lo hi).low, (newRange lo hi).high) := by
  simp only [Gen.Leaf.newRangeMatchPortRange, newRange, BitVec.ult, BitVec.lt_def, gt_iff_lt, decide_eq_true_eq]
  split <;> rfl

theorem wildcardRange_eq : Gen.Leaf.newWildcardPortRange = (0#16, 0xFFFF#16) := rfl

theorem exactRange_eq (p : BitVec 16) : Gen.Leaf.newExactMatchPortRange p = (p, p) := rfl

end GenEq
