import Upf.Model.Calc

namespace Calc

theorem slt_pos (v : U64) (h1 : 0 < v.toNat) (h2 : v.toNat < 2^63) : BitVec.slt 0#64 v = true := by
  simp only [BitVec.slt, BitVec.toInt_eq_toNat_cond]
  simp
  omega

theorem mul_fit (mbr : U64) (k : Nat) (hk : k < 2^64) (hfit : mbr.toNat * k < 2^63) :
    (mbr * BitVec.ofNat 64 k).toNat = mbr.toNat * k := by
  rw [BitVec.toNat_mul, BitVec.toNat_ofNat, Nat.mod_eq_of_lt hk, Nat.mod_eq_of_lt (by omega)]

theorem calc_exact (mbr : U64) (u : Unit_) (h0 : mbr ≠ 0#64)
    (hfit : mbr.toNat * u.factor < 2^63) : (bitRates mbr u).toNat = mbr.toNat * u.factor := by
  have hm : 0 < mbr.toNat := by
    rcases Nat.eq_zero_or_pos mbr.toNat with h | h
    · exact absurd (BitVec.eq_of_toNat_eq (by simpa using h)) h0
    · exact h
  have key : ∀ k, 0 < k → k < 2^64 → mbr.toNat * k < 2^63 →
      (let val : U64 := mbr * BitVec.ofNat 64 k
       if BitVec.slt 0#64 val then val else 0x7FFFFFFFFFFFFFFF#64).toNat = mbr.toNat * k := by
    intro k hk0 hk hf
    have e := mul_fit mbr k hk hf
    have hp : 0 < mbr.toNat * k := Nat.mul_pos hm hk0
    have hs : BitVec.slt 0#64 (mbr * BitVec.ofNat 64 k) = true :=
      slt_pos _ (by rw [e]; exact hp) (by rw [e]; exact hf)
    simp only [hs, if_true, e]
  cases u
  · simp [bitRates, Unit_.factor]
  all_goals exact key _ (by decide) (by decide) hfit

#print axioms calc_exact

end Calc

