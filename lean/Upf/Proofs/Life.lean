import Upf.Model.Life

namespace Life

end Life

namespace Life

theorem cinv_default : CInv ({} : Conn) := by
  constructor <;> simp

theorem inv_init : Inv init := ⟨rfl, fun _ => cinv_default, fun h => by cases h⟩

theorem exec_single {l : List Nat} (h : l.length ≤ 1) {i pc : Nat} (hi : l[i]? = some pc) :
    l = [pc] ∧ i = 0 := by
  match l, h with
  | [], _ => simp at hi
  | [x], _ =>
    cases i with
    | zero => simp at hi; simp [hi]
    | succ n => simp at hi

theorem conns_upd {f : Nat → Conn} (h : ∀ a, CInv (f a)) (a : Nat) (c : Conn) (hc : CInv c) :
    ∀ b, CInv (upd f a c b) := by
  intro b
  by_cases hb : b = a
  · subst hb; simpa using hc
  · simpa [upd_other _ _ _ _ hb] using h b

theorem allRep_upd {s : St} (a : Nat) (c : Conn) (h : allReported s)
    (hc : c.exists_ = true → c.reported = true) :
    allReported { s with conns := upd s.conns a c } := by
  intro b hb
  by_cases hba : b = a
  · subst hba; simp at hb ⊢; exact hc hb
  · simp [upd_other _ _ _ _ hba] at hb ⊢; exact h b hb

theorem bool_false_of_not {b : Bool} (h : ¬ b = true) : b = false := by cases b <;> simp_all

theorem step_inv (f : Facts) (hg : f.guarded = true) (hw : f.waits = true)
    (s s' : St) (act : Act) (hi : Inv s) (hs : step f s act = some s') : Inv s' := by
  obtain ⟨hok, hc, hcl⟩ := hi
  cases act with
  | newConn a sess =>
    simp only [step] at hs
    split at hs
    · cases hs
    · rename_i hne
      cases hs
      have hl : s.listenerClosed = false := by
        cases h : s.listenerClosed <;> simp_all
      refine ⟨hok, conns_upd hc a _ (by constructor <;> simp), ?_⟩
      intro hd
      have := (hcl hd).2
      simp [hl] at this
  | trigger a =>
    simp only [step] at hs
    split at hs
    · cases hs
    · rename_i hex
      have hex' : (s.conns a).exists_ = true := by
        cases h : (s.conns a).exists_ <;> simp_all
      split at hs
      · cases hs; exact ⟨hok, hc, hcl⟩
      · rename_i hns
        cases hs
        have hst : (s.conns a).started = false := by
          cases h : (s.conns a).started <;> simp_all
        obtain ⟨hempty, hsc, hrep⟩ := (hc a).fresh hst
        refine ⟨hok, conns_upd hc a _ ?_, ?_⟩
        · constructor
          · simp [hempty]
          · intro h; cases h
          · intro h; simp [hex'] at h
          · intro pc _ _; exact hsc
          · intro pc _ _; exact hrep
        · intro hd
          obtain ⟨har, hlc⟩ := hcl hd
          exact ⟨allRep_upd a _ har (fun _ => har a hex'), hlc⟩
  | sd a i =>
    simp only [step] at hs
    split at hs
    · cases hs
    · rename_i pc hpc
      have hca := hc a
      obtain ⟨hl, hi0⟩ := exec_single hca.one hpc
      subst hi0
      have hstarted : (s.conns a).started = true := by
        cases h : (s.conns a).started
        · have := (hca.fresh h).1; simp [hl] at this
        · rfl
      have hexists : (s.conns a).exists_ = true := by
        cases h : (s.conns a).exists_
        · have := hca.notEx h; simp [hstarted] at this
        · rfl
      split at hs
      · -- pc = 1 : close(shutdown)
        have hsc := hca.pc1 1 (by simp [hl]) rfl
        simp [hsc] at hs
        cases hs
        refine ⟨hok, conns_upd hc a _ ?_, ?_⟩
        · constructor
          · simp [hl]
          · intro h; simp [hstarted] at h
          · intro h; simp [hexists] at h
          · intro pc' hp he; simp [hl] at hp; omega
          · intro pc' hp _; simp [hl] at hp; exact hca.pc4 1 (by simp [hl]) (by omega)
        · intro hd
          obtain ⟨har, hlc⟩ := hcl hd
          exact ⟨allRep_upd a _ har (fun _ => har a hexists), hlc⟩
      · -- pc = 2
        cases hs
        refine ⟨hok, conns_upd hc a _ ?_, ?_⟩
        · constructor
          · simp [hl]
          · intro h; simp [hstarted] at h
          · intro h; simp [hexists] at h
          · intro pc' hp he; simp [hl] at hp; omega
          · intro pc' hp _; simp [hl] at hp; exact hca.pc4 2 (by simp [hl]) (by omega)
        · intro hd
          obtain ⟨har, hlc⟩ := hcl hd
          exact ⟨allRep_upd a _ har (fun _ => har a hexists), hlc⟩
      · -- pc = 3
        split at hs <;> cases hs
        all_goals
          refine ⟨hok, conns_upd hc a _ ?_, ?_⟩
          · constructor
            · simp [hl]
            · intro h; simp [hstarted] at h
            · intro h; simp [hexists] at h
            · intro pc' hp he; simp [hl] at hp; omega
            · intro pc' hp _; simp [hl] at hp; exact hca.pc4 3 (by simp [hl]) (by omega)
          · intro hd
            obtain ⟨har, hlc⟩ := hcl hd
            exact ⟨allRep_upd a _ har (fun _ => har a hexists), hlc⟩
      · -- pc = 4 : send on pConnDone
        have hrep := hca.pc4 4 (by simp [hl]) (by omega)
        have hnc : s.doneClosed = false := by
          cases h : s.doneClosed
          · rfl
          · have := (hcl h).1 a hexists; simp [hrep] at this
        simp [hnc] at hs
        obtain ⟨_, rfl⟩ := hs
        refine ⟨hok, conns_upd hc a _ ?_, ?_⟩
        · constructor
          · simp [hl]
          · intro h; simp [hstarted] at h
          · intro h; simp [hexists] at h
          · intro pc' hp he; simp [hl] at hp; omega
          · intro pc' hp hle; simp [hl] at hp; omega
        · intro hd; simp [hnc] at hd
      · -- pc = 5
        cases hs
        have hrep : (s.conns a).reported = true ∨ (s.conns a).reported = false := by
          cases (s.conns a).reported <;> simp
        refine ⟨hok, conns_upd hc a _ ?_, ?_⟩
        · constructor
          · simp [hl]
          · intro h; simp [hstarted] at h
          · intro h; simp [hexists] at h
          · intro pc' hp he; simp [hl] at hp; omega
          · intro pc' hp hle; simp [hl] at hp; omega
        · intro hd
          obtain ⟨har, hlc⟩ := hcl hd
          exact ⟨allRep_upd a _ har (fun _ => har a hexists), hlc⟩
      · cases hs
  | nRecv =>
    simp only [step] at hs
    split at hs <;> cases hs
    exact ⟨hok, hc, hcl⟩
  | stop =>
    simp only [step] at hs; cases hs; exact ⟨hok, hc, hcl⟩
  | nCloseListener =>
    simp only [step] at hs
    split at hs <;> cases hs
    exact ⟨hok, hc, fun hd => ⟨(hcl hd).1, rfl⟩⟩
  | nCloseDone =>
    simp only [step] at hs
    split at hs
    · cases hs
    · rename_i h1
      split at hs
      · cases hs
      · rename_i h2
        cases hs
        refine ⟨hok, hc, fun _ => ⟨?_, ?_⟩⟩
        · have : allReported s := by
            apply Classical.byContradiction
            intro hn; exact h2 ⟨hw, hn⟩
          exact this
        · cases h : s.listenerClosed <;> simp_all
  | nExit =>
    simp only [step] at hs
    split at hs <;> cases hs
    exact ⟨hok, hc, hcl⟩

/-- no interleaving of any number of associations ever panics, if teardown is guarded and the node waits -/
theorem safe (f : Facts) (hg : f.guarded = true) (hw : f.waits = true) :
    ∀ (acts : List Act) (s s' : St), Inv s → run f s acts = some s' → s'.panicked = false := by
  intro acts
  induction acts with
  | nil => intro s s' hi hr; simp [run] at hr; subst hr; exact hi.ok
  | cons a as ih =>
    intro s s' hi hr
    simp only [run] at hr
    split at hr
    · cases hr
    · rename_i s1 h1
      exact ih s1 s' (step_inv f hg hw s s1 a hi h1) hr

#print axioms safe

end Life

