namespace Gen.P4Info
end Gen.P4Info
