namespace Gen.P4Constants
end Gen.P4Constants
