namespace Gen.Life
end Gen.Life
