package sysh

import (
	"context"
	"encoding/json"
	"fmt"
	"io"
	"math/big"
	"net"
	"os"
	"sort"
	"sync"

	"github.com/golang/protobuf/proto"
	p4ConfigV1 "github.com/p4lang/p4runtime/go/p4/config/v1"
	p4 "github.com/p4lang/p4runtime/go/p4/v1"
	"google.golang.org/genproto/googleapis/rpc/code"
	spb "google.golang.org/genproto/googleapis/rpc/status"
	"google.golang.org/grpc"
	"google.golang.org/grpc/codes"
	"google.golang.org/grpc/status"
	"google.golang.org/protobuf/types/known/anypb"
)

// FakeP4 is a P4Runtime server with the Write semantics of the specification: INSERT of an existing key
// is ALREADY_EXISTS, MODIFY / DELETE of a missing key is NOT_FOUND, a batch continues after a failed
// update and reports one status per update; meters are arrays of configurations; it serves the P4Info
// shipped in the repository. Every Write RPC is logged in a canonical form, including the ones it refuses.
type FakeP4 struct {
	p4.UnimplementedP4RuntimeServer
	mu      sync.Mutex
	info    *p4ConfigV1.P4Info
	tables  map[string]*P4Entry   // key -> entry
	order   []string              // insertion order of keys (Read returns entries in this order)
	meters  map[[2]uint64][4]int64 // (meter id, index) -> cir, cburst, pir, pburst (configured cells only)
	NWrite  int
	Rpcs    []P4Rpc
	// Fault, when set, is consulted (under the lock) with the 1-based number of each Write RPC and its updates:
	// it returns "" (serve), "rpc" (fail the whole RPC, apply nothing) or "upd" with the index of the update to refuse and the code.
	Fault func(n int, ups []P4Up) (mode string, j int, code int)
	srv   *grpc.Server
	Addr  string
	streams []p4.P4Runtime_StreamChannelServer
}

// P4FM is one match field: id, kind (0 exact, 1 lpm, 2 ternary, 3 range, 4 optional), value, aux, bytes on the wire.
type P4FM [5]uint64

type P4Entry struct {
	T  uint32     `json:"t"`
	M  []P4FM     `json:"m"`
	P  int32      `json:"p"`
	A  uint32     `json:"a"`
	Ps [][3]uint64 `json:"ps"` // param id, value, bytes on the wire
}

type P4Up struct {
	Op   string   `json:"op"` // I M D
	Kind string   `json:"kind"` // t m c
	E    *P4Entry `json:"e,omitempty"`
	ID   uint32   `json:"id,omitempty"`
	Idx  int64    `json:"idx"`
	Cfg  *[4]int64 `json:"cfg,omitempty"`
	Code int      `json:"code"` // status of this update (meaningless when the RPC failed as a whole)
	Big  bool     `json:"big,omitempty"` // some value does not fit 64 bits
}

type P4Rpc struct {
	N    int    `json:"n"`
	Inj  string `json:"inj,omitempty"` // "rpc" | "upd"
	J    int    `json:"j,omitempty"`
	Ups  []P4Up `json:"ups"`
}

func NewFakeP4(p4infoPath string) (*FakeP4, error) {
	b, err := os.ReadFile(p4infoPath)
	if err != nil {
		return nil, err
	}
	info := &p4ConfigV1.P4Info{}
	if err := proto.UnmarshalText(string(b), info); err != nil {
		return nil, err
	}
	return &FakeP4{info: info, tables: map[string]*P4Entry{}, meters: map[[2]uint64][4]int64{}}, nil
}

// SetCounterSize makes the served P4Info declare `n` cells for every indirect counter (a smaller pipeline)
func (f *FakeP4) SetCounterSize(n int64) {
	for _, c := range f.info.Counters {
		c.Size = n
	}
}

func (f *FakeP4) Start() error {
	l, err := net.Listen("tcp", "127.0.0.1:0")
	if err != nil {
		return err
	}
	f.Addr = l.Addr().String()
	f.srv = grpc.NewServer()
	p4.RegisterP4RuntimeServer(f.srv, f)
	go func() { _ = f.srv.Serve(l) }()
	return nil
}

func (f *FakeP4) Stop() { f.srv.Stop() }

func num(b []byte) (uint64, bool) {
	v := new(big.Int).SetBytes(b)
	if !v.IsUint64() {
		return 0, false
	}
	return v.Uint64(), true
}

func canonEntry(e *p4.TableEntry) (*P4Entry, bool) {
	c := &P4Entry{T: e.TableId, P: e.Priority, M: []P4FM{}, Ps: [][3]uint64{}}
	ok := true
	for _, m := range e.Match {
		var fm P4FM
		fm[0] = uint64(m.FieldId)
		var o1, o2 bool = true, true
		switch x := m.FieldMatchType.(type) {
		case *p4.FieldMatch_Exact_:
			fm[1] = 0
			fm[2], o1 = num(x.Exact.Value)
			fm[4] = uint64(len(x.Exact.Value))
		case *p4.FieldMatch_Lpm:
			fm[1] = 1
			fm[2], o1 = num(x.Lpm.Value)
			fm[3] = uint64(x.Lpm.PrefixLen)
			fm[4] = uint64(len(x.Lpm.Value))
		case *p4.FieldMatch_Ternary_:
			fm[1] = 2
			fm[2], o1 = num(x.Ternary.Value)
			fm[3], o2 = num(x.Ternary.Mask)
			fm[4] = uint64(len(x.Ternary.Value))
		case *p4.FieldMatch_Range_:
			fm[1] = 3
			fm[2], o1 = num(x.Range.Low)
			fm[3], o2 = num(x.Range.High)
			fm[4] = uint64(len(x.Range.Low))
		case *p4.FieldMatch_Optional_:
			fm[1] = 4
			fm[2], o1 = num(x.Optional.Value)
			fm[4] = uint64(len(x.Optional.Value))
		default:
			fm[1] = 9
		}
		ok = ok && o1 && o2
		c.M = append(c.M, fm)
	}
	sort.SliceStable(c.M, func(i, j int) bool { return c.M[i][0] < c.M[j][0] })
	if a := e.GetAction().GetAction(); a != nil {
		c.A = a.ActionId
		for _, p := range a.Params {
			v, o := num(p.Value)
			ok = ok && o
			c.Ps = append(c.Ps, [3]uint64{uint64(p.ParamId), v, uint64(len(p.Value))})
		}
	}
	return c, ok
}

func (e *P4Entry) key() string {
	b, _ := json.Marshal([]interface{}{e.T, e.M, e.P})
	return string(b)
}

func canonUpdate(u *p4.Update) P4Up {
	c := P4Up{Op: map[p4.Update_Type]string{p4.Update_INSERT: "I", p4.Update_MODIFY: "M", p4.Update_DELETE: "D"}[u.Type], Kind: "?"}
	if u.Entity == nil {
		return c
	}
	switch e := u.Entity.Entity.(type) {
	case *p4.Entity_TableEntry:
		c.Kind = "t"
		var ok bool
		c.E, ok = canonEntry(e.TableEntry)
		c.Big = !ok
	case *p4.Entity_MeterEntry:
		c.Kind = "m"
		c.ID = e.MeterEntry.MeterId
		c.Idx = e.MeterEntry.GetIndex().GetIndex()
		if cfg := e.MeterEntry.Config; cfg != nil {
			c.Cfg = &[4]int64{cfg.Cir, cfg.Cburst, cfg.Pir, cfg.Pburst}
		}
	case *p4.Entity_CounterEntry:
		c.Kind = "c"
		c.ID = e.CounterEntry.CounterId
		c.Idx = e.CounterEntry.GetIndex().GetIndex()
	}
	return c
}

func (f *FakeP4) Write(ctx context.Context, r *p4.WriteRequest) (*p4.WriteResponse, error) {
	f.mu.Lock()
	defer f.mu.Unlock()
	f.NWrite++
	rpc := P4Rpc{N: f.NWrite, Ups: []P4Up{}}
	for _, u := range r.Updates {
		if u == nil {
			rpc.Ups = append(rpc.Ups, P4Up{Op: "?", Kind: "nil"})
			continue
		}
		rpc.Ups = append(rpc.Ups, canonUpdate(u))
	}
	mode, fj, fcode := "", -1, 0
	if f.Fault != nil {
		mode, fj, fcode = f.Fault(f.NWrite, rpc.Ups)
	}
	if mode == "rpc" {
		rpc.Inj = "rpc"
		f.Rpcs = append(f.Rpcs, rpc)
		return nil, status.Error(codes.Unavailable, "injected failure")
	}
	if mode == "upd" {
		rpc.Inj, rpc.J = "upd", fj
	}
	bad := false
	for i := range rpc.Ups {
		u := &rpc.Ups[i]
		c := codes.OK
		switch {
		case mode == "upd" && i == fj:
			c = codes.Code(fcode)
		case u.Kind == "t":
			k := u.E.key()
			_, ex := f.tables[k]
			switch u.Op {
			case "I":
				if ex {
					c = codes.AlreadyExists
				} else {
					f.tables[k] = u.E
					f.order = append(f.order, k)
				}
			case "M":
				if !ex {
					c = codes.NotFound
				} else {
					f.tables[k] = u.E
				}
			case "D":
				if !ex {
					c = codes.NotFound
				} else {
					delete(f.tables, k)
					for j, o := range f.order {
						if o == k {
							f.order = append(f.order[:j:j], f.order[j+1:]...)
							break
						}
					}
				}
			default:
				c = codes.InvalidArgument
			}
		case u.Kind == "m":
			k := [2]uint64{uint64(u.ID), uint64(u.Idx)}
			if u.Cfg != nil {
				f.meters[k] = *u.Cfg
			} else {
				delete(f.meters, k)
			}
		case u.Kind == "c":
		default:
			c = codes.InvalidArgument
		}
		u.Code = int(c)
		if c != codes.OK {
			bad = true
		}
	}
	f.Rpcs = append(f.Rpcs, rpc)
	if bad {
		st := &spb.Status{Code: int32(code.Code_UNKNOWN), Message: "batch"}
		for _, u := range rpc.Ups {
			a, _ := anypb.New(proto.MessageV2(&p4.Error{CanonicalCode: int32(u.Code)}))
			st.Details = append(st.Details, a)
		}
		return nil, status.FromProto(st).Err()
	}
	return &p4.WriteResponse{}, nil
}

func (e *P4Entry) toProto() *p4.TableEntry {
	be := func(v uint64, n uint64) []byte {
		b := make([]byte, n)
		for i := int(n) - 1; i >= 0; i-- {
			b[i] = byte(v)
			v >>= 8
		}
		return b
	}
	t := &p4.TableEntry{TableId: e.T, Priority: e.P}
	for _, m := range e.M {
		fm := &p4.FieldMatch{FieldId: uint32(m[0])}
		switch m[1] {
		case 0:
			fm.FieldMatchType = &p4.FieldMatch_Exact_{Exact: &p4.FieldMatch_Exact{Value: be(m[2], m[4])}}
		case 1:
			fm.FieldMatchType = &p4.FieldMatch_Lpm{Lpm: &p4.FieldMatch_LPM{Value: be(m[2], m[4]), PrefixLen: int32(m[3])}}
		case 2:
			fm.FieldMatchType = &p4.FieldMatch_Ternary_{Ternary: &p4.FieldMatch_Ternary{Value: be(m[2], m[4]), Mask: be(m[3], m[4])}}
		case 3:
			fm.FieldMatchType = &p4.FieldMatch_Range_{Range: &p4.FieldMatch_Range{Low: be(m[2], m[4]), High: be(m[3], m[4])}}
		case 4:
			fm.FieldMatchType = &p4.FieldMatch_Optional_{Optional: &p4.FieldMatch_Optional{Value: be(m[2], m[4])}}
		}
		t.Match = append(t.Match, fm)
	}
	a := &p4.Action{ActionId: e.A}
	for _, p := range e.Ps {
		a.Params = append(a.Params, &p4.Action_Param{ParamId: uint32(p[0]), Value: be(p[1], p[2])})
	}
	t.Action = &p4.TableAction{Type: &p4.TableAction_Action{Action: a}}
	return t
}

func (f *FakeP4) Read(r *p4.ReadRequest, s p4.P4Runtime_ReadServer) error {
	f.mu.Lock()
	defer f.mu.Unlock()
	resp := &p4.ReadResponse{}
	for _, en := range r.Entities {
		if te := en.GetTableEntry(); te != nil {
			for _, k := range f.order {
				e := f.tables[k]
				if te.TableId == 0 || e.T == te.TableId {
					resp.Entities = append(resp.Entities, &p4.Entity{Entity: &p4.Entity_TableEntry{TableEntry: e.toProto()}})
				}
			}
		}
	}
	return s.Send(resp)
}

func (f *FakeP4) StreamChannel(s p4.P4Runtime_StreamChannelServer) error {
	f.mu.Lock()
	f.streams = append(f.streams, s)
	f.mu.Unlock()
	for {
		m, err := s.Recv()
		if err == io.EOF || err != nil {
			return nil
		}
		if a := m.GetArbitration(); a != nil {
			_ = s.Send(&p4.StreamMessageResponse{Update: &p4.StreamMessageResponse_Arbitration{Arbitration: &p4.MasterArbitrationUpdate{DeviceId: a.DeviceId, ElectionId: a.ElectionId, Status: &spb.Status{Code: 0}}}})
		}
	}
}

func (f *FakeP4) GetForwardingPipelineConfig(ctx context.Context, r *p4.GetForwardingPipelineConfigRequest) (*p4.GetForwardingPipelineConfigResponse, error) {
	return &p4.GetForwardingPipelineConfigResponse{Config: &p4.ForwardingPipelineConfig{P4Info: f.info}}, nil
}

// TakeRpcs returns the Write RPCs logged since the last call.
func (f *FakeP4) TakeRpcs() []P4Rpc {
	f.mu.Lock()
	defer f.mu.Unlock()
	r := f.Rpcs
	f.Rpcs = nil
	if r == nil {
		r = []P4Rpc{}
	}
	return r
}

func (f *FakeP4) Count() int {
	f.mu.Lock()
	defer f.mu.Unlock()
	return f.NWrite
}

// Snapshot returns the table entries (sorted by key) and the configured meter cells.
func (f *FakeP4) Snapshot() ([]*P4Entry, [][6]int64) {
	f.mu.Lock()
	defer f.mu.Unlock()
	keys := make([]string, 0, len(f.tables))
	for k := range f.tables {
		keys = append(keys, k)
	}
	sort.Strings(keys)
	es := make([]*P4Entry, 0, len(keys))
	for _, k := range keys {
		es = append(es, f.tables[k])
	}
	ms := make([][6]int64, 0, len(f.meters))
	for k, v := range f.meters {
		ms = append(ms, [6]int64{int64(k[0]), int64(k[1]), v[0], v[1], v[2], v[3]})
	}
	sort.Slice(ms, func(i, j int) bool {
		if ms[i][0] != ms[j][0] {
			return ms[i][0] < ms[j][0]
		}
		return ms[i][1] < ms[j][1]
	})
	return es, ms
}

var _ = fmt.Sprint
