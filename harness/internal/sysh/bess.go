// Package sysh is the system-level part of the correspondence harness: a fake BESS gRPC server
// owned by the parent process, the real agent as a child process, scripted PFCP peers.
package sysh

import (
	"context"
	"fmt"
	"net"
	"sort"
	"strings"
	"sync"

	pb "github.com/omec-project/upf-epc/pfcpiface/bess_pb"
	"google.golang.org/grpc"
	"google.golang.org/grpc/codes"
	"google.golang.org/grpc/status"
)

// FakeBess implements the lookup modules as keyed tables with upsert / delete / clear — the
// semantics of the repository's own pkg/fake_bess, extended by the sliceMeter module.
type FakeBess struct {
	pb.UnimplementedBESSControlServer
	mu     sync.Mutex
	tables map[string]map[string]string // module -> key -> value
	NCmd   int                          // commands received since start
	Log    []string                     // canonical command log ("module cmd key=value")
	// OnCmd, when set, is called (under the lock) with the 1-based index of each command before it is
	// applied; returning false makes the server drop the command and answer with an error.
	OnCmd func(n int, module, cmd string) bool
	srv   *grpc.Server
	Addr  string
}

func NewFakeBess() *FakeBess {
	return &FakeBess{tables: map[string]map[string]string{}}
}

func (b *FakeBess) Start() error {
	l, err := net.Listen("tcp", "127.0.0.1:0")
	if err != nil {
		return err
	}
	b.Addr = l.Addr().String()
	b.srv = grpc.NewServer()
	pb.RegisterBESSControlServer(b.srv, b)
	go func() { _ = b.srv.Serve(l) }()
	return nil
}

func (b *FakeBess) Stop() { b.srv.Stop() }

func fields(fs []*pb.FieldData) string {
	parts := make([]string, len(fs))
	for i, f := range fs {
		switch e := f.Encoding.(type) {
		case *pb.FieldData_ValueInt:
			parts[i] = fmt.Sprintf("%d", e.ValueInt)
		case *pb.FieldData_ValueBin:
			parts[i] = fmt.Sprintf("x%x", e.ValueBin)
		default:
			parts[i] = "?"
		}
	}
	return strings.Join(parts, ",")
}

func (b *FakeBess) ModuleCommand(ctx context.Context, r *pb.CommandRequest) (*pb.CommandResponse, error) {
	b.mu.Lock()
	defer b.mu.Unlock()
	b.NCmd++
	if b.OnCmd != nil && !b.OnCmd(b.NCmd, r.Name, r.Cmd) {
		return nil, status.Error(codes.Unavailable, "injected failure")
	}
	t := b.tables[r.Name]
	if t == nil {
		t = map[string]string{}
		b.tables[r.Name] = t
	}
	var key, val string
	switch r.Name {
	case "pdrLookup":
		switch r.Cmd {
		case "add":
			a := &pb.WildcardMatchCommandAddArg{}
			if err := r.Arg.UnmarshalTo(a); err != nil {
				return nil, err
			}
			key = fields(a.Values) + "/" + fields(a.Masks)
			val = fmt.Sprintf("%d,%d,%s", a.Gate, a.Priority, fields(a.Valuesv))
		case "delete":
			a := &pb.WildcardMatchCommandDeleteArg{}
			if err := r.Arg.UnmarshalTo(a); err != nil {
				return nil, err
			}
			key = fields(a.Values) + "/" + fields(a.Masks)
		}
	case "farLookup":
		switch r.Cmd {
		case "add":
			a := &pb.ExactMatchCommandAddArg{}
			if err := r.Arg.UnmarshalTo(a); err != nil {
				return nil, err
			}
			key = fields(a.Fields)
			val = fmt.Sprintf("%d,%s", a.Gate, fields(a.Values))
		case "delete":
			a := &pb.ExactMatchCommandDeleteArg{}
			if err := r.Arg.UnmarshalTo(a); err != nil {
				return nil, err
			}
			key = fields(a.Fields)
		}
	case "appQERLookup", "sessionQERLookup", "sliceMeter":
		switch r.Cmd {
		case "add":
			a := &pb.QosCommandAddArg{}
			if err := r.Arg.UnmarshalTo(a); err != nil {
				return nil, err
			}
			key = fields(a.Fields)
			val = fmt.Sprintf("%d,%d,%d,%d,%d,%d", a.Gate, a.Cir, a.Pir, a.Cbs, a.Pbs, a.Ebs)
			if len(a.Values) > 0 {
				val += "," + fields(a.Values)
			}
			if d, ok := a.OptionalDeductLen.(*pb.QosCommandAddArg_DeductLen); ok {
				val += fmt.Sprintf(",d%d", d.DeductLen)
			}
		case "delete":
			a := &pb.QosCommandDeleteArg{}
			if err := r.Arg.UnmarshalTo(a); err != nil {
				return nil, err
			}
			key = fields(a.Fields)
		}
	case "gtpuPathMonitoring":
		a := &pb.GtpuPathMonitoringCommandAddDeleteArg{}
		if r.Cmd != "clear" {
			if err := r.Arg.UnmarshalTo(a); err != nil {
				return nil, err
			}
			key = fmt.Sprintf("%d", a.GnbIp)
			val = "1"
		}
	default:
		return nil, status.Errorf(codes.NotFound, "unknown module %s", r.Name)
	}
	b.Log = append(b.Log, fmt.Sprintf("%s %s %s=%s", r.Name, r.Cmd, key, val))
	switch r.Cmd {
	case "add":
		t[key] = val
	case "delete":
		if _, ok := t[key]; !ok {
			return nil, status.Errorf(codes.NotFound, "entry not found: %s", key)
		}
		delete(t, key)
	case "clear":
		b.tables[r.Name] = map[string]string{}
	default:
		return nil, status.Errorf(codes.InvalidArgument, "invalid command %s", r.Cmd)
	}
	return &pb.CommandResponse{}, nil
}

// Snapshot returns the table contents as sorted "module|key|value" strings.
func (b *FakeBess) Snapshot() []string {
	b.mu.Lock()
	defer b.mu.Unlock()
	var out []string
	for m, t := range b.tables {
		for k, v := range t {
			out = append(out, m+"|"+k+"|"+v)
		}
	}
	sort.Strings(out)
	return out
}

// TakeLog returns and clears the command log.
func (b *FakeBess) TakeLog() []string {
	b.mu.Lock()
	defer b.mu.Unlock()
	l := b.Log
	b.Log = nil
	return l
}

func (b *FakeBess) Count() int {
	b.mu.Lock()
	defer b.mu.Unlock()
	return b.NCmd
}

// Seed puts an arbitrary entry into a module (what a killed incarnation may have left behind).
func (b *FakeBess) Seed(module, key, val string) {
	b.mu.Lock()
	defer b.mu.Unlock()
	if b.tables[module] == nil {
		b.tables[module] = map[string]string{}
	}
	b.tables[module][key] = val
}

func (b *FakeBess) SetOnCmd(f func(n int, module, cmd string) bool) {
	b.mu.Lock()
	b.OnCmd = f
	b.mu.Unlock()
}
