package sysh

import (
	"bufio"
	"bytes"
	"encoding/json"
	"fmt"
	"io"
	"net"
	"net/http"
	"os"
	"os/exec"
	"path/filepath"
	"strings"
	"sync"
	"syscall"
	"time"

	"github.com/wmnsk/go-pfcp/ie"
	"github.com/wmnsk/go-pfcp/message"
)

// Opts selects the agent configuration of one run.
type Opts struct {
	UEAlloc     bool
	Pool        string // CIDR
	EndMarker   bool
	Notify      bool
	HB          bool
	HBInterval  string
	RespTimeout string
	MaxRetries  int
	ReadTimeout int
	QCI         []map[string]int // qci_qos_config entries
	Slice       map[string]uint64
	Peers       []string // cpiface.peers: control-plane nodes the agent itself associates with at start-up
	PeerNames   []string // set on the loaded configuration through the Go API (the file loader only admits IP literals)
	Race        bool   // run the agent child from the binary built with -race (VERIF_AGENT_BIN)
	P4          bool   // UP4 datapath against the harness' own P4Runtime server
	P4Slice     int
	P4DefaultTC int
	P4CtrSize   int // >0: the served P4Info declares this many cells for the PDR counters (default: as shipped)
	P4QfiTC     map[string]int // qfi_tc_mapping
	P4Clear     bool           // clear_state_on_restart
	P4Access    string         // access_ip (CIDR)
	Extra       map[string]interface{}
}

type Sys struct {
	Opts     Opts
	Bess     *FakeBess
	P4       *FakeP4
	N4       string // agent's N4 address (127.x.y.1)
	prefix   string // 127.x.y.
	HTTPPort int
	dir      string
	self     string // path of the harness binary (child mode)

	mu       sync.Mutex
	cmd      *exec.Cmd
	stdin    io.WriteCloser
	ctl      chan string // control replies of the child
	stderr   *bytes.Buffer
	exited   chan struct{}
	exitErr  error
	nextHost int
	nextPort int
	Starts   int

	notifyLn *net.UnixListener
	emLn     *net.UnixListener
	notifyC  *net.UnixConn
	emC      *net.UnixConn
	Markers  chan []byte
}

var sysCounter int

// New prepares addresses, the fake BESS server and the unixpacket sockets. One Sys per family of cases.
func New(o Opts) (*Sys, error) {
	pid := os.Getpid()
	sysCounter++
	s := &Sys{Opts: o, nextHost: 2, nextPort: 20000}
	s.prefix = fmt.Sprintf("127.%d.%d.", 16+pid%200, 1+((pid/200)*7+sysCounter)%250)
	s.N4 = s.prefix + "1"
	self, err := os.Executable()
	if err != nil {
		return nil, err
	}
	s.self = self
	if alt := os.Getenv("VERIF_AGENT_BIN"); alt != "" && o.Race {
		s.self = alt // the same program built with the race detector
	}
	work := os.Getenv("VERIF_WORK")
	if work == "" {
		work = os.TempDir()
	}
	s.dir, err = os.MkdirTemp(work, "sys")
	if err != nil {
		return nil, err
	}
	s.Bess = NewFakeBess()
	if err := s.Bess.Start(); err != nil {
		return nil, err
	}
	if o.P4 {
		repo := os.Getenv("VERIF_REPO")
		if repo == "" {
			repo = "/repo"
		}
		s.P4, err = NewFakeP4(filepath.Join(repo, "conf/p4/bin/p4info.txt"))
		if err != nil {
			return nil, err
		}
		if o.P4CtrSize > 0 {
			s.P4.SetCounterSize(int64(o.P4CtrSize))
		}
		if err := s.P4.Start(); err != nil {
			return nil, err
		}
	}
	// a free TCP port for HTTP
	l, err := net.Listen("tcp", "127.0.0.1:0")
	if err != nil {
		return nil, err
	}
	s.HTTPPort = l.Addr().(*net.TCPAddr).Port
	l.Close()
	s.Markers = make(chan []byte, 4096)
	if o.Notify {
		s.notifyLn, err = net.ListenUnix("unixpacket", &net.UnixAddr{Name: filepath.Join(s.dir, "n.sock"), Net: "unixpacket"})
		if err != nil {
			return nil, err
		}
		go func() {
			for {
				c, err := s.notifyLn.AcceptUnix()
				if err != nil {
					return
				}
				s.mu.Lock()
				s.notifyC = c
				s.mu.Unlock()
			}
		}()
	}
	if o.EndMarker {
		s.emLn, err = net.ListenUnix("unixpacket", &net.UnixAddr{Name: filepath.Join(s.dir, "e.sock"), Net: "unixpacket"})
		if err != nil {
			return nil, err
		}
		go func() {
			for {
				c, err := s.emLn.AcceptUnix()
				if err != nil {
					return
				}
				s.mu.Lock()
				s.emC = c
				s.mu.Unlock()
				go func(c *net.UnixConn) {
					for {
						buf := make([]byte, 2048)
						n, err := c.Read(buf)
						if err != nil {
							return
						}
						s.Markers <- buf[:n]
					}
				}(c)
			}
		}()
	}
	return s, nil
}

func (s *Sys) confJSON() []byte {
	o := s.Opts
	c := map[string]interface{}{
		"mode":      "af_packet",
		"access":    map[string]string{"ifname": "lo"},
		"core":      map[string]string{"ifname": "lo"},
		"n4_addr":   s.N4,
		"log_level": "fatal",
		"cpiface": map[string]interface{}{
			"http_port":          fmt.Sprintf("%d", s.HTTPPort),
			"enable_ue_ip_alloc": o.UEAlloc,
			"ue_ip_pool":         o.Pool,
		},
		"enable_end_marker":  o.EndMarker,
		"enable_notify_bess": o.Notify,
		"enable_hbTimer":     o.HB,
	}
	if os.Getenv("VERIF_LOG") != "" {
		c["log_level"] = "debug"
	}
	if o.Notify {
		c["notify_sockaddr"] = filepath.Join(s.dir, "n.sock")
	}
	if o.EndMarker {
		c["endmarker_sockaddr"] = filepath.Join(s.dir, "e.sock")
	}
	if o.HBInterval != "" {
		c["heart_beat_interval"] = o.HBInterval
	}
	if o.RespTimeout != "" {
		c["resp_timeout"] = o.RespTimeout
	}
	if o.MaxRetries != 0 {
		c["max_req_retries"] = o.MaxRetries
	}
	if o.ReadTimeout != 0 {
		c["read_timeout"] = o.ReadTimeout
	}
	if o.QCI != nil {
		c["qci_qos_config"] = o.QCI
	}
	if o.Slice != nil {
		c["slice_rate_limit_config"] = o.Slice
	}
	if o.Peers != nil {
		c["cpiface"].(map[string]interface{})["peers"] = o.Peers
	}
	if o.P4 {
		host, port, _ := net.SplitHostPort(s.P4.Addr)
		delete(c, "mode")
		c["enable_p4rt"] = true
		acc := o.P4Access
		if acc == "" {
			acc = "198.18.0.1/32"
		}
		pc := map[string]interface{}{"access_ip": acc, "p4rtc_server": host, "p4rtc_port": port, "slice_id": o.P4Slice, "default_tc": o.P4DefaultTC,
			"clear_state_on_restart": o.P4Clear}
		if o.P4QfiTC != nil {
			pc["qfi_tc_mapping"] = o.P4QfiTC
		}
		c["p4rtciface"] = pc
	}
	for k, v := range o.Extra {
		c[k] = v
	}
	b, _ := json.MarshalIndent(c, "", " ")
	return b
}

// Start spawns the agent child and waits until it serves HTTP and (BESS) reports connected.
func (s *Sys) Start() error {
	confPath := filepath.Join(s.dir, "conf.json")
	if err := os.WriteFile(confPath, s.confJSON(), 0o644); err != nil {
		return err
	}
	cmd := exec.Command(s.self, "agentd", confPath, s.Bess.Addr)
	cmd.Env = append(os.Environ(), "GOMEMLIMIT=2GiB", "GORACE=halt_on_error=0")
	if s.Opts.PeerNames != nil {
		cmd.Env = append(cmd.Env, "VERIF_PEERS="+strings.Join(s.Opts.PeerNames, ","))
	}
	stdin, err := cmd.StdinPipe()
	if err != nil {
		return err
	}
	stdout, err := cmd.StdoutPipe()
	if err != nil {
		return err
	}
	s.stderr = &bytes.Buffer{}
	cmd.Stderr = s.stderr
	cmd.SysProcAttr = &syscall.SysProcAttr{Pdeathsig: syscall.SIGKILL}
	if err := cmd.Start(); err != nil {
		return err
	}
	s.mu.Lock()
	s.cmd, s.stdin = cmd, stdin
	s.ctl = make(chan string, 64)
	s.exited = make(chan struct{})
	s.Starts++
	ctl, exited := s.ctl, s.exited
	s.mu.Unlock()
	var tail []string
	go func() {
		sc := bufio.NewScanner(stdout)
		sc.Buffer(make([]byte, 1<<20), 1<<24)
		for sc.Scan() {
			line := sc.Text()
			if strings.HasPrefix(line, "@@ ") {
				ctl <- line[3:]
			} else {
				tail = append(tail, line)
				if len(tail) > 200 {
					tail = tail[100:]
				}
			}
		}
		err := cmd.Wait()
		s.mu.Lock()
		s.exitErr = err
		if len(tail) > 0 {
			s.stderr.WriteString("\n--- stdout tail ---\n" + strings.Join(tail[max(0, len(tail)-30):], "\n"))
		}
		s.mu.Unlock()
		close(exited)
	}()
	deadline := time.Now().Add(15 * time.Second)
	for time.Now().Before(deadline) {
		if s.Exited() {
			return fmt.Errorf("agent exited during start-up: %s", s.CrashInfo())
		}
		resp, err := http.Get(fmt.Sprintf("http://127.0.0.1:%d/metrics", s.HTTPPort))
		if err == nil {
			resp.Body.Close()
			if st := s.Stats(); st != nil && (st["connected"] == 1) {
				return nil
			}
		}
		time.Sleep(20 * time.Millisecond)
	}
	return fmt.Errorf("agent did not become ready: %s", s.CrashInfo())
}

func max(a, b int) int {
	if a > b {
		return a
	}
	return b
}

// Exited reports whether the child process has terminated.
func (s *Sys) Exited() bool {
	s.mu.Lock()
	ex := s.exited
	s.mu.Unlock()
	if ex == nil {
		return true
	}
	select {
	case <-ex:
		return true
	default:
		return false
	}
}

// WaitExit waits up to d for the child to terminate.
func (s *Sys) WaitExit(d time.Duration) bool {
	s.mu.Lock()
	ex := s.exited
	s.mu.Unlock()
	if ex == nil {
		return true
	}
	select {
	case <-ex:
		return true
	case <-time.After(d):
		return false
	}
}

// CrashInfo extracts the panic / fatal message and the top frame inside the repository from the child's stderr.
func (s *Sys) CrashInfo() string {
	s.mu.Lock()
	txt := s.stderr.String()
	err := s.exitErr
	s.mu.Unlock()
	var msg, frame string
	lines := strings.Split(txt, "\n")
	for i, l := range lines {
		if msg == "" && (strings.HasPrefix(l, "panic:") || strings.HasPrefix(l, "fatal error:") || strings.Contains(l, "FATAL")) {
			msg = strings.TrimSpace(l)
		}
		if frame == "" && msg != "" && strings.Contains(l, "upf-epc/pfcpiface.") && i+1 < len(lines) && !strings.Contains(l, "verif") {
			loc := strings.TrimSpace(lines[i+1])
			if j := strings.LastIndex(loc, "/pfcpiface/"); j >= 0 {
				loc = loc[j+1:]
			}
			if k := strings.Index(loc, " "); k >= 0 {
				loc = loc[:k]
			}
			frame = loc
		}
	}
	if msg == "" {
		msg = fmt.Sprintf("exit: %v", err)
		if len(txt) > 0 {
			msg += " :: " + strings.ReplaceAll(txt[max(0, len(txt)-300):], "\n", " / ")
		}
	}
	if len(msg) > 160 {
		msg = msg[:160]
	}
	return strings.ReplaceAll(msg+" @ "+frame, " ", "_")
}

// Races extracts the data-race reports of the child (built with -race): for each, the functions of the repository involved.
func (s *Sys) Races() []string {
	txt := s.Stderr()
	var out []string
	for _, blk := range strings.Split(txt, "WARNING: DATA RACE")[1:] {
		if i := strings.Index(blk, "=================="); i >= 0 {
			blk = blk[:i]
		}
		var fns []string
		for _, l := range strings.Split(blk, "\n") {
			l = strings.TrimSpace(l)
			if j := strings.Index(l, "upf-epc/pfcpiface."); j >= 0 && !strings.Contains(l, "Verif") {
				f := l[j+len("upf-epc/pfcpiface."):]
				if k := strings.Index(f, "("); k > 0 && strings.HasSuffix(f, ")") && !strings.HasPrefix(f, "(") {
					f = f[:k]
				}
				if len(fns) == 0 || fns[len(fns)-1] != f {
					fns = append(fns, f)
				}
			}
		}
		if len(fns) > 4 {
			fns = fns[:4]
		}
		out = append(out, strings.Join(fns, "<-"))
	}
	return out
}

func (s *Sys) Stderr() string {
	s.mu.Lock()
	defer s.mu.Unlock()
	return s.stderr.String()
}

// Ctl sends a control command to the child and waits for one reply line.
func (s *Sys) Ctl(cmd string, d time.Duration) (string, bool) {
	s.mu.Lock()
	in, ctl := s.stdin, s.ctl
	s.mu.Unlock()
	if in == nil || s.Exited() {
		return "", false
	}
	// drain stale replies
	for {
		select {
		case <-ctl:
			continue
		default:
		}
		break
	}
	if _, err := io.WriteString(in, cmd+"\n"); err != nil {
		return "", false
	}
	select {
	case r := <-ctl:
		return r, true
	case <-time.After(d):
		return "", false
	}
}

func (s *Sys) Stats() map[string]int {
	r, ok := s.Ctl("stats", 3*time.Second)
	if !ok {
		return nil
	}
	m := map[string]int{}
	if json.Unmarshal([]byte(r), &m) != nil {
		return nil
	}
	return m
}

// P4Observe collects the Write RPCs since the last call, the switch state and the plug-in's pool occupancy.
func (s *Sys) P4Observe() *P4Obs {
	if s.P4 == nil {
		return nil
	}
	o := &P4Obs{Rpcs: s.P4.TakeRpcs()}
	o.Entries, o.Meters = s.P4.Snapshot()
	o.Stats = map[string]int{}
	if r, ok := s.Ctl("p4stats", 3*time.Second); ok {
		_ = json.Unmarshal([]byte(r), &o.Stats)
	}
	return o
}

// Kill terminates the child with SIGKILL (a crash of the agent).
func (s *Sys) Kill() {
	s.mu.Lock()
	cmd := s.cmd
	s.mu.Unlock()
	if cmd != nil && cmd.Process != nil {
		_ = cmd.Process.Kill()
		s.WaitExit(5 * time.Second)
	}
}

// Close kills the child and removes the scratch directory.
func (s *Sys) Close() {
	s.Kill()
	s.Bess.Stop()
	if s.P4 != nil {
		s.P4.Stop()
	}
	if s.notifyLn != nil {
		s.notifyLn.Close()
	}
	if s.emLn != nil {
		s.emLn.Close()
	}
	os.RemoveAll(s.dir)
}

// NotifyBess writes a downlink-data report for fseid on the BESS notify socket (8 bytes little endian).
func (s *Sys) NotifyBess(fseid uint64) bool {
	s.mu.Lock()
	c := s.notifyC
	s.mu.Unlock()
	if c == nil {
		return false
	}
	buf := make([]byte, 8)
	for i := 0; i < 8; i++ {
		buf[i] = byte(fseid >> (8 * uint(i)))
	}
	_, err := c.Write(buf)
	return err == nil
}

// ---------------------------------------------------------------- peers

type Peer struct {
	S        *Sys
	Conn     *net.UDPConn
	Addr     string // local ip
	IP       net.IP
	seq      uint32
	Fresh    bool
	AnswerHB bool     // answer the agent's own Heartbeat Requests
	DupHB    bool     // ... twice
	Inbox    [][]byte // agent-originated requests seen meanwhile (heartbeats, session reports)
	pastBarriers map[uint32]bool
}

// service handles an agent-originated request; it reports whether r was one.
func (p *Peer) service(r []byte) bool {
	m, err := message.Parse(r)
	if err != nil {
		return false
	}
	switch m.MessageType() {
	case message.MsgTypeHeartbeatRequest:
		p.Inbox = append(p.Inbox, r)
		if p.AnswerHB {
			_ = p.SendRaw(Marshal(message.NewHeartbeatResponse(m.Sequence(), ie.NewRecoveryTimeStamp(time.Unix(1700000000, 0)))))
			if p.DupHB { // the same answer once more (a duplicated datagram, or a peer that answers the retransmission too)
				_ = p.SendRaw(Marshal(message.NewHeartbeatResponse(m.Sequence(), ie.NewRecoveryTimeStamp(time.Unix(1700000000, 0)))))
			}
		}
		return true
	case message.MsgTypeSessionReportRequest, message.MsgTypeAssociationSetupRequest:
		p.Inbox = append(p.Inbox, r)
		return true
	}
	return false
}

// Idle services agent-originated requests for d.
func (p *Peer) Idle(d time.Duration) {
	deadline := time.Now().Add(d)
	for time.Now().Before(deadline) {
		if r, ok := p.Recv(time.Until(deadline)); ok {
			p.service(r)
		}
	}
}

// NewPeer binds a new control-plane peer: a new source address (host part) when newHost, else a new port on host 2.
func (s *Sys) NewPeer(newHost bool) (*Peer, error) {
	s.mu.Lock()
	host := 2
	if newHost {
		s.nextHost++
		if s.nextHost > 250 {
			s.nextHost = 3
		}
		host = s.nextHost
	}
	s.mu.Unlock()
	ip := net.ParseIP(fmt.Sprintf("%s%d", s.prefix, host))
	c, err := net.DialUDP("udp", &net.UDPAddr{IP: ip, Port: 0}, &net.UDPAddr{IP: net.ParseIP(s.N4), Port: 8805})
	if err != nil {
		return nil, err
	}
	return &Peer{S: s, Conn: c, Addr: ip.String(), IP: ip.To4(), seq: 100, Fresh: true}, nil
}

// NewPeerAt binds a control-plane peer at a fixed address and port (the target of an agent-initiated association).
func (s *Sys) NewPeerAt(addr string, port int) (*Peer, error) {
	ip := net.ParseIP(addr)
	c, err := net.DialUDP("udp", &net.UDPAddr{IP: ip, Port: port}, &net.UDPAddr{IP: net.ParseIP(s.N4), Port: 8805})
	if err != nil {
		return nil, err
	}
	return &Peer{S: s, Conn: c, Addr: ip.String(), IP: ip.To4(), seq: 100, Fresh: false}, nil
}

// AcceptAssociation waits for the agent's own Association Setup Request and accepts it.
func (p *Peer) AcceptAssociation(d time.Duration) bool {
	deadline := time.Now().Add(d)
	for time.Now().Before(deadline) {
		r, ok := p.Recv(time.Until(deadline))
		if !ok {
			continue
		}
		m, err := message.Parse(r)
		if err != nil || m.MessageType() != message.MsgTypeAssociationSetupRequest {
			p.service(r)
			continue
		}
		resp := message.NewAssociationSetupResponse(m.Sequence(), ie.NewNodeID(p.Addr, "", ""), ie.NewCause(ie.CauseRequestAccepted),
			ie.NewRecoveryTimeStamp(time.Unix(1700000000, 0)))
		return p.SendRaw(Marshal(resp)) == nil
	}
	return false
}

// Rebind closes the peer's socket and opens it again on the SAME address and port (a control plane that restarts).
func (p *Peer) Rebind() error {
	la := p.Conn.LocalAddr().(*net.UDPAddr)
	ra := p.Conn.RemoteAddr().(*net.UDPAddr)
	_ = p.Conn.Close() // (closing twice is harmless)
	var err error
	for i := 0; i < 20; i++ {
		var c *net.UDPConn
		if c, err = net.DialUDP("udp", la, ra); err == nil {
			p.Conn = c
			return nil
		}
		time.Sleep(5 * time.Millisecond)
	}
	return err
}

func (p *Peer) Close() { p.Conn.Close() }

func (p *Peer) NextSeq() uint32 { p.seq++; return p.seq }

func (p *Peer) SendRaw(b []byte) error {
	_, err := p.Conn.Write(b)
	return err
}

func Marshal(m message.Message) []byte {
	b := make([]byte, m.MarshalLen())
	if err := m.MarshalTo(b); err != nil {
		panic(err)
	}
	return b
}

func (p *Peer) Recv(d time.Duration) ([]byte, bool) {
	_ = p.Conn.SetReadDeadline(time.Now().Add(d))
	buf := make([]byte, 65536)
	n, err := p.Conn.Read(buf)
	if err != nil {
		return nil, false
	}
	return buf[:n], true
}

// Exchange sends one datagram and then a Heartbeat Request as a barrier. It returns every datagram
// received before the barrier's response, and whether the barrier was answered. The reader of an
// association handles datagrams in order, so a reply to `b` precedes the heartbeat response.
func (p *Peer) Exchange(b []byte, wait time.Duration) (replies [][]byte, barrier bool) {
	if err := p.SendRaw(b); err != nil {
		return nil, false
	}
	if p.Fresh {
		// the first datagram of a new address is handled by the node while it sets the association up;
		// a second datagram arriving in that window is dropped by design ("drop packet for existing PFCPconn")
		if r, ok := p.Recv(60 * time.Millisecond); ok && !p.service(r) {
			replies = append(replies, r)
		}
		p.Fresh = false
	}
	barriers := map[uint32]bool{}
	if p.pastBarriers == nil {
		p.pastBarriers = map[uint32]bool{}
	}
	for attempt := 0; attempt < 3; attempt++ {
		seq := p.NextSeq() | 0x800000
		barriers[seq] = true
		hb := message.NewHeartbeatRequest(seq, ie.NewRecoveryTimeStamp(time.Unix(1700000000, 0)), nil)
		if err := p.SendRaw(Marshal(hb)); err != nil {
			return replies, false
		}
		// escalating patience: a heartbeat dropped while an association is being replaced is retried soon
		deadline := time.Now().Add([]time.Duration{wait / 10, wait / 3, wait}[attempt])
		for time.Now().Before(deadline) {
			slice := time.Until(deadline)
			if slice > 40*time.Millisecond {
				slice = 40 * time.Millisecond
			}
			r, ok := p.Recv(slice)
			if !ok {
				if p.S.Exited() {
					return replies, false
				}
				continue
			}
			// the answer to any of this exchange's barriers will do: datagrams are handled in order, so the request was handled before it
			if m, err := message.Parse(r); err == nil && m.MessageType() == message.MsgTypeHeartbeatResponse && barriers[m.Sequence()] {
				for k := range barriers {
					if k != m.Sequence() {
						p.pastBarriers[k] = true
					}
				}
				return replies, true
			}
			// a late answer to a barrier of an earlier exchange
			if m, err := message.Parse(r); err == nil && m.MessageType() == message.MsgTypeHeartbeatResponse && p.pastBarriers[m.Sequence()] {
				delete(p.pastBarriers, m.Sequence())
				continue
			}
			if p.service(r) {
				continue
			}
			replies = append(replies, r)
		}
		if p.S.Exited() {
			return replies, false
		}
	}
	return replies, false
}
