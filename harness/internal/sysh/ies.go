package sysh

import (
	"encoding/binary"
	"fmt"
	"net"

	"github.com/wmnsk/go-pfcp/ie"
	"github.com/wmnsk/go-pfcp/message"
)

// Abstract (decoded) information elements. The same values are written to the trace (JSON) and
// turned into bytes with go-pfcp's constructors, so the bytes<->abstract relation is go-pfcp's codec.

type PdrIE struct {
	ID    uint16    `json:"id"`
	Prec  uint32    `json:"prec"`
	Src   *uint8    `json:"src,omitempty"`  // PFCP source interface value
	Teid  *[3]uint32 `json:"teid,omitempty"` // ch(0/1), teid, ipv4
	UE    *[2]uint32 `json:"ue,omitempty"`   // flags, ipv4
	App   *string   `json:"app,omitempty"`
	Sdf   *string   `json:"sdf,omitempty"`
	Ohr   *uint8    `json:"ohr,omitempty"`
	Far   uint32    `json:"far"`
	Qers  []uint32  `json:"qers"`
}

type FwdIE struct {
	Dst *uint8     `json:"dst,omitempty"`
	Ohc *[2]uint32 `json:"ohc,omitempty"` // teid, ipv4
	Sm  *uint8     `json:"sm,omitempty"`
}

type FarIE struct {
	ID  uint32 `json:"id"`
	Act uint8  `json:"act"`
	Fwd *FwdIE `json:"fwd,omitempty"`
}

type QerIE struct {
	ID   uint32    `json:"id"`
	Qfi  uint8     `json:"qfi"`
	Gate [2]uint8  `json:"gate"`
	Mbr  [2]uint64 `json:"mbr"`
	Gbr  [2]uint64 `json:"gbr"`
}

func IP4(v uint32) net.IP {
	ip := make(net.IP, 4)
	binary.BigEndian.PutUint32(ip, v)
	return ip
}

func U32(ip net.IP) uint32 {
	ip4 := ip.To4()
	if ip4 == nil {
		return 0
	}
	return binary.BigEndian.Uint32(ip4)
}

func (p PdrIE) pdi() *ie.IE {
	var l []*ie.IE
	if p.Src != nil {
		l = append(l, ie.NewSourceInterface(*p.Src))
	}
	if p.Teid != nil {
		if p.Teid[0] == 1 {
			l = append(l, ie.NewFTEID(0x05, 0, nil, nil, 0)) // CH | V4
		} else {
			l = append(l, ie.NewFTEID(0x01, p.Teid[1], IP4(p.Teid[2]), nil, 0))
		}
	}
	if p.UE != nil {
		if p.UE[0]&2 != 0 {
			l = append(l, ie.NewUEIPAddress(uint8(p.UE[0]), IP4(p.UE[1]).String(), "", 0, 0))
		} else {
			l = append(l, ie.NewUEIPAddress(uint8(p.UE[0]), "", "", 0, 0))
		}
	}
	// the order of the IEs inside a grouped IE carries no meaning (TS 29.244): it is varied, as a function of the rule itself so
	// that a replay sends the same bytes. Application ID and SDF filter keep their relative order (the later one wins in the code).
	k := int(uint32(p.ID)+p.Prec) % 6
	if n := len(l); n > 1 {
		r := k % n
		l = append(append([]*ie.IE{}, l[r:]...), l[:r]...)
	}
	var second []*ie.IE
	if p.App != nil {
		second = append(second, ie.NewApplicationID(*p.App))
	}
	if p.Sdf != nil {
		second = append(second, ie.NewSDFFilter(*p.Sdf, "", "", "", 1))
	}
	if k >= 3 {
		l = append(second, l...)
	} else {
		l = append(l, second...)
	}
	return ie.NewPDI(l...)
}

func (p PdrIE) children() []*ie.IE {
	l := []*ie.IE{ie.NewPDRID(p.ID), ie.NewPrecedence(p.Prec), p.pdi()}
	if p.Ohr != nil {
		l = append(l, ie.NewOuterHeaderRemoval(*p.Ohr, 0))
	}
	l = append(l, ie.NewFARID(p.Far))
	for _, q := range p.Qers {
		l = append(l, ie.NewQERID(q))
	}
	return l
}

func (p PdrIE) Create() *ie.IE { return ie.NewCreatePDR(p.children()...) }
func (p PdrIE) Update() *ie.IE { return ie.NewUpdatePDR(p.children()...) }

func (f FarIE) fwdChildren() []*ie.IE {
	var l []*ie.IE
	if f.Fwd.Dst != nil {
		l = append(l, ie.NewDestinationInterface(*f.Fwd.Dst))
	}
	if f.Fwd.Ohc != nil {
		l = append(l, ie.NewOuterHeaderCreation(0x0100, f.Fwd.Ohc[0], IP4(f.Fwd.Ohc[1]).String(), "", 0, 0, 0))
	}
	if f.Fwd.Sm != nil {
		l = append(l, ie.NewPFCPSMReqFlags(*f.Fwd.Sm))
	}
	return l
}

func (f FarIE) Create() *ie.IE {
	l := []*ie.IE{ie.NewFARID(f.ID), ie.NewApplyAction(f.Act)}
	if f.Fwd != nil {
		l = append(l, ie.NewForwardingParameters(f.fwdChildren()...))
	}
	return ie.NewCreateFAR(l...)
}

func (f FarIE) Update() *ie.IE {
	l := []*ie.IE{ie.NewFARID(f.ID), ie.NewApplyAction(f.Act)}
	if f.Fwd != nil {
		l = append(l, ie.NewUpdateForwardingParameters(f.fwdChildren()...))
	}
	return ie.NewUpdateFAR(l...)
}

func (q QerIE) children() []*ie.IE {
	return []*ie.IE{ie.NewQERID(q.ID), ie.NewQFI(q.Qfi), ie.NewGateStatus(q.Gate[0], q.Gate[1]), ie.NewMBR(q.Mbr[0], q.Mbr[1]), ie.NewGBR(q.Gbr[0], q.Gbr[1])}
}

func (q QerIE) Create() *ie.IE { return ie.NewCreateQER(q.children()...) }
func (q QerIE) Update() *ie.IE { return ie.NewUpdateQER(q.children()...) }

// Obs is what the harness observed for one request.
type Obs struct {
	Alive   bool       `json:"alive"`
	Crash   string     `json:"crash,omitempty"`
	N       int        `json:"n"`
	Type    uint8      `json:"type"`
	SeqOK   bool       `json:"seq_ok"`
	Cause   uint8      `json:"cause"`
	Seid    uint64     `json:"seid"`
	Up      uint64     `json:"up"`
	UpIP    uint32     `json:"upip"`
	Node    string     `json:"node"`
	Created [][]interface{} `json:"created"`
	Tables  []string   `json:"tables"`
	Markers [][]uint64 `json:"markers"`
	Extra   int        `json:"extra,omitempty"` // datagrams of other types received meanwhile
	P4      *P4Obs     `json:"p4,omitempty"`
}

// P4Obs is what the harness' P4Runtime server saw during one request, and what it holds afterwards.
type P4Obs struct {
	Rpcs    []P4Rpc        `json:"rpcs"`
	Entries []*P4Entry     `json:"entries"`
	Meters  [][6]int64     `json:"meters"`
	Stats   map[string]int `json:"stats"`
}

// Decode fills the reply fields of o from the datagrams received for a request with sequence number seq.
func (o *Obs) Decode(replies [][]byte, seq uint32) {
	o.Created = [][]interface{}{}
	for _, r := range replies {
		m, err := message.Parse(r)
		if err != nil {
			o.N++
			continue
		}
		o.N++
		o.Type = m.MessageType()
		o.SeqOK = m.Sequence() == seq
		o.Seid = m.SEID()
		switch x := m.(type) {
		case *message.SessionEstablishmentResponse:
			if x.Cause != nil {
				o.Cause, _ = x.Cause.Cause()
			}
			if x.UPFSEID != nil {
				if f, err := x.UPFSEID.FSEID(); err == nil {
					o.Up = f.SEID
					o.UpIP = U32(f.IPv4Address)
				}
			}
			if x.NodeID != nil {
				o.Node, _ = x.NodeID.NodeID()
			}
			for _, c := range x.CreatedPDR {
				id, _ := c.PDRID()
				ies, _ := c.CreatedPDR()
				for _, e := range ies {
					switch e.Type {
					case ie.FTEID:
						if f, err := e.FTEID(); err == nil {
							o.Created = append(o.Created, []interface{}{id, "t", f.TEID, U32(f.IPv4Address)})
						}
					case ie.UEIPAddress:
						if u, err := e.UEIPAddress(); err == nil {
							o.Created = append(o.Created, []interface{}{id, "u", U32(u.IPv4Address), 0})
						}
					}
				}
			}
		case *message.SessionModificationResponse:
			if x.Cause != nil {
				o.Cause, _ = x.Cause.Cause()
			}
		case *message.SessionDeletionResponse:
			if x.Cause != nil {
				o.Cause, _ = x.Cause.Cause()
			}
		case *message.AssociationSetupResponse:
			if x.Cause != nil {
				o.Cause, _ = x.Cause.Cause()
			}
			if x.NodeID != nil {
				o.Node, _ = x.NodeID.NodeID()
			}
		case *message.AssociationReleaseResponse:
			if x.Cause != nil {
				o.Cause, _ = x.Cause.Cause()
			}
		case *message.PFDManagementResponse:
			if x.Cause != nil {
				o.Cause, _ = x.Cause.Cause()
			}
		}
	}
}

func init() { _ = fmt.Sprint }
