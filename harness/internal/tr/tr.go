// Package tr writes the correspondence trace (one case per line) and the run's measured
// input distribution (meta file) that bin/check turns into the evidence file.
package tr

import (
	"bufio"
	"encoding/json"
	"fmt"
	"hash/fnv"
	"os"
	"sort"
	"sync"
)

type W struct {
	mu       sync.Mutex
	f        *os.File
	w        *bufio.Writer
	path     string
	lines    int
	seen     map[uint64]struct{}
	distinct int
	hist     map[string]int
	samples  []string
	maxSamp  int
	notes    []string
}

func New(path string) *W {
	f, err := os.Create(path)
	if err != nil {
		panic(err)
	}
	return &W{f: f, w: bufio.NewWriterSize(f, 1<<20), path: path, seen: map[uint64]struct{}{}, hist: map[string]int{}, maxSamp: 12}
}

// Case writes one trace line. class names the input class (for the histogram); nontrivial says
// whether the case reached a non-error branch or a distinct error class by the property's rule.
func (t *W) Case(class string, nontrivial bool, format string, a ...interface{}) {
	line := fmt.Sprintf(format, a...)
	t.mu.Lock()
	defer t.mu.Unlock()
	t.lines++
	t.hist[class]++
	h := fnv.New64a()
	h.Write([]byte(line))
	k := h.Sum64()
	if _, ok := t.seen[k]; !ok {
		t.seen[k] = struct{}{}
		if nontrivial {
			t.distinct++
		}
		// keep a few samples per class, short ones preferred
		if len(t.samples) < t.maxSamp && t.hist[class] <= 2 && len(line) < 400 {
			t.samples = append(t.samples, line)
		}
	}
	t.w.WriteString(line)
	t.w.WriteByte('\n')
	if t.lines%200 == 0 || os.Getenv("VERIF_FLUSH") != "" {
		t.w.Flush()
	}
}

func (t *W) Count(class string, n int) {
	t.mu.Lock()
	t.hist[class] += n
	t.mu.Unlock()
}

func (t *W) Note(format string, a ...interface{}) {
	t.mu.Lock()
	t.notes = append(t.notes, fmt.Sprintf(format, a...))
	t.mu.Unlock()
}

func (t *W) Flush() { t.mu.Lock(); t.w.Flush(); t.mu.Unlock() }

// Close flushes the trace and writes <path>.meta.json.
func (t *W) Close(extra map[string]interface{}) {
	t.w.Flush()
	t.f.Close()
	keys := make([]string, 0, len(t.hist))
	for k := range t.hist {
		keys = append(keys, k)
	}
	sort.Strings(keys)
	meta := map[string]interface{}{
		"evaluations":         t.lines,
		"distinct_nontrivial": t.distinct,
		"distinct":            len(t.seen),
		"histogram":           t.hist,
		"samples":             t.samples,
		"notes":               t.notes,
	}
	for k, v := range extra {
		meta[k] = v
	}
	b, _ := json.MarshalIndent(meta, "", " ")
	if err := os.WriteFile(t.path+".meta.json", b, 0o644); err != nil {
		panic(err)
	}
}
