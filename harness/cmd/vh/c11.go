package main

import (
	"math/rand"
	"net"
	"sync"
	"time"

	"github.com/wmnsk/go-pfcp/ie"
	"github.com/wmnsk/go-pfcp/message"

	"verifharness/internal/sysh"
)

func init() { props["C11"] = c11 }

// one request of a concurrent stream, with its event (emitted after the streams have ended, association by association)
type concEv struct {
	ev map[string]interface{}
}

// c11: (1) sequential histories over several associations whose sessions share gNB peers and application filters
// (UP4; decided by the model); (2) streams of establishments / modifications / deletions from 2..8 associations at
// the same time, on both datapaths, with the agent built with the race detector; after each phase the datapath is
// quiescent and its content is compared with what the sessions denote.
func c11(c *ctx) {
	r := c.rng
	// ---- (0) the allocators every association shares, under concurrent callers
	c06conc(c)
	c07conc(c)
	// ---- (1) cross-association sharing, one request at a time
	for k := 0; k < c.pick(2, 12); k++ {
		o := p4Opts(c, k)
		o.Race = true
		w, err := newWorld(c, o)
		if err != nil {
			panic(err)
		}
		w.cfgLine()
		if !w.start() {
			w.close()
			return
		}
		nA := 2 + r.Intn(3)
		for a := 0; a < nA; a++ {
			w.assoc(a)
		}
		c11scripted(w, k)
		w.p4history(c.pick(30, 80))
		w.emit("races", true, map[string]interface{}{"k": "races", "dp": "up4", "phase": "sequential", "races": nzs(w.s.Races())})
		w.close()
	}
	// ---- (2) concurrent streams
	for _, p4 := range []bool{false, true} {
		for rep := 0; rep < c.pick(3, 20); rep++ {
			nA := []int{2, 4, 8, 3, 5, 6, 7}[rep%7]
			per := c.pick(10, 100)
			if p4 && per*nA > 440 {
				per = 440 / nA // the pipeline has 1024 counter cells, two per session
			}
			o := sysh.Opts{Race: true}
			if p4 {
				o = sysh.Opts{P4: true, Pool: "10.60.0.0/16", P4DefaultTC: 3, Race: true}
			}
			w, err := newWorld(c, o)
			if err != nil {
				panic(err)
			}
			w.wait = 6 * time.Second
			w.cfgLine()
			if !w.start() {
				w.close()
				return
			}
			for a := 0; a < nA; a++ {
				w.assoc(a)
			}
			concurrent(w, r, nA, per, p4)
			w.close()
		}
	}
}

func nzs(x []string) []string {
	if x == nil {
		return []string{}
	}
	return x
}

type csess struct {
	up   uint64
	pdrs []sysh.PdrIE
	fars []sysh.FarIE
	qers []sysh.QerIE
}

func concurrent(w *world, r *rand.Rand, nA, per int, p4 bool) {
	dp := "bess"
	if p4 {
		dp = "up4"
	}
	seeds := make([]int64, nA)
	for a := range seeds {
		seeds[a] = r.Int63()
	}
	evs := make([][]map[string]interface{}, nA)
	live := make([][]*csess, nA)
	var wg sync.WaitGroup
	// ---- phase up: every association establishes `per` sessions and modifies some of them
	for a := 0; a < nA; a++ {
		wg.Add(1)
		go func(a int) {
			defer wg.Done()
			rr := rand.New(rand.NewSource(seeds[a]))
			p := w.peers[a]
			for k := 0; k < per; k++ {
				if rr.Intn(3) == 0 {
					time.Sleep(time.Duration(rr.Intn(800)) * time.Microsecond)
				}
				// keys are disjoint between associations; gNB peers and application filters are shared
				ue := uint32(0x0A3C0000) + uint32(a)<<12 + uint32(k) + 1
				teid := uint32(1000) + uint32(a)<<20 + uint32(k)*4
				gnb := uint32(0xC6120100) + uint32(rr.Intn(3))
				ul := sysh.PdrIE{ID: 1, Prec: 100, Src: u8p(0), Teid: u32p3(0, teid, n3IP), UE: u32p2(2, ue), Ohr: u8p(0), Far: 1}
				dl := sysh.PdrIE{ID: 2, Prec: 100, Src: u8p(1), UE: u32p2(2, ue), Far: 2}
				fars := []sysh.FarIE{{ID: 1, Act: 2, Fwd: &sysh.FwdIE{Dst: u8p(1)}}, {ID: 2, Act: 2, Fwd: &sysh.FwdIE{Dst: u8p(0), Ohc: u32p2(teid+1, gnb)}}}
				var qers []sysh.QerIE
				switch rr.Intn(3) {
				case 0:
					ul.Qers, dl.Qers = []uint32{1, 4}, []uint32{2, 4}
					qers = []sysh.QerIE{{ID: 1, Qfi: 9, Mbr: [2]uint64{1000, 2000}}, {ID: 2, Qfi: 9, Mbr: [2]uint64{1000, 2000}}, {ID: 4, Qfi: 9, Mbr: [2]uint64{50000, 60000}}}
				case 1:
					f := sdfPool[1+rr.Intn(3)]
					ul.Sdf, dl.Sdf = strp(f), strp(f)
					ul.Qers, dl.Qers = []uint32{1}, []uint32{1}
					qers = []sysh.QerIE{{ID: 1, Qfi: 5, Mbr: [2]uint64{3000, 3000}}}
				}
				pdrs := []sysh.PdrIE{ul, dl}
				cp := uint64(5000 + a*100000 + k)
				seq := p.NextSeq()
				ies := []*ie.IE{ie.NewNodeID(w.nodes[a], "", ""), ie.NewFSEID(cp, p.IP, nil)}
				for _, x := range pdrs {
					ies = append(ies, x.Create())
				}
				for _, x := range fars {
					ies = append(ies, x.Create())
				}
				for _, x := range qers {
					ies = append(ies, x.Create())
				}
				replies, barrier := p.Exchange(sysh.Marshal(message.NewSessionEstablishmentRequest(0, 0, 0, seq, 0, ies...)), w.wait)
				o := sysh.Obs{Alive: barrier, Markers: [][]uint64{}}
				o.Decode(replies, seq)
				evs[a] = append(evs[a], map[string]interface{}{"k": "est", "a": a, "node": w.nodes[a], "cp": cp, "cpip": sysh.U32(p.IP),
					"n4": sysh.U32(net.ParseIP(w.s.N4)), "n4s": w.s.N4, "pdrs": pdrs, "fars": fars, "qers": nzq(qers), "obs": o, "conc": true})
				if o.Cause == 1 {
					cs := &csess{up: o.Up, pdrs: pdrs, fars: fars, qers: qers}
					live[a] = append(live[a], cs)
					// a QER update on some of them (rates only)
					if len(qers) > 0 && rr.Intn(3) == 0 {
						q := qers[0]
						q.Mbr = [2]uint64{uint64(rr.Intn(9000)), uint64(rr.Intn(9000))}
						seq := p.NextSeq()
						replies, barrier := p.Exchange(sysh.Marshal(message.NewSessionModificationRequest(0, 0, cs.up, seq, 0, q.Update())), w.wait)
						mo := sysh.Obs{Alive: barrier, Markers: [][]uint64{}}
						mo.Decode(replies, seq)
						evs[a] = append(evs[a], map[string]interface{}{"k": "mod", "a": a, "seid": cs.up, "cp": []int{}, "cf": []int{}, "cq": []int{}, "up": []int{}, "uf": []int{},
							"uq": []sysh.QerIE{q}, "rp": []int{}, "rf": []int{}, "rq": []int{}, "obs": mo, "conc": true})
						if mo.Cause == 1 {
							cs.qers[0] = q
						}
					}
					// an Update PDR of the downlink rule on others (same match key; UP4 rewrites its UE-address books for it),
					// together with an Update FAR that re-sends the tunnel
					if rr.Intn(3) == 0 {
						seq := p.NextSeq()
						replies, barrier := p.Exchange(sysh.Marshal(message.NewSessionModificationRequest(0, 0, cs.up, seq, 0, dl.Update(), fars[1].Update())), w.wait)
						mo := sysh.Obs{Alive: barrier, Markers: [][]uint64{}}
						mo.Decode(replies, seq)
						evs[a] = append(evs[a], map[string]interface{}{"k": "mod", "a": a, "seid": cs.up, "cp": []int{}, "cf": []int{}, "cq": []int{}, "up": []sysh.PdrIE{dl}, "uf": []sysh.FarIE{fars[1]},
							"uq": []int{}, "rp": []int{}, "rf": []int{}, "rq": []int{}, "obs": mo, "conc": true})
					}
				}
			}
		}(a)
	}
	wg.Wait()
	flush := func(phase string) {
		for a := 0; a < nA; a++ {
			for _, ev := range evs[a] {
				w.emit("conc/"+dp+"/"+ev["k"].(string), ev["obs"].(sysh.Obs).Cause == 1, ev)
			}
			evs[a] = nil
		}
		time.Sleep(20 * time.Millisecond)
		alive := !w.s.Exited()
		obs := map[string]interface{}{"alive": alive, "tables": w.s.Bess.Snapshot(), "races": nzs(w.s.Races())}
		if !alive {
			obs["crash"] = w.s.CrashInfo()
		}
		if p4 && alive {
			obs["p4"] = w.s.P4Observe()
		}
		type sdesc struct {
			A    int    `json:"a"`
			Gnb  uint32 `json:"gnb"`
			App  string `json:"app"`
			NQer int    `json:"nqer"`
			Sess bool   `json:"sess"`
		}
		var ds []sdesc
		for a := 0; a < nA; a++ {
			for _, s := range live[a] {
				d := sdesc{A: a, Gnb: s.fars[1].Fwd.Ohc[1], NQer: len(s.qers), Sess: len(s.qers) == 3}
				if s.pdrs[0].Sdf != nil {
					d.App = *s.pdrs[0].Sdf
				}
				ds = append(ds, d)
			}
		}
		if ds == nil {
			ds = []sdesc{}
		}
		w.emit("conc/"+dp+"/"+phase, true, map[string]interface{}{"k": "conc", "dp": dp, "phase": phase, "assocs": nA, "per": per, "sessions": ds, "obs": obs})
	}
	flush("up")
	// ---- phase down: every association deletes its sessions, at the same time
	for a := 0; a < nA; a++ {
		wg.Add(1)
		go func(a int) {
			defer wg.Done()
			rr := rand.New(rand.NewSource(seeds[a] + 1))
			p := w.peers[a]
			var keep []*csess
			for _, cs := range live[a] {
				if rr.Intn(4) == 0 {
					time.Sleep(time.Duration(rr.Intn(500)) * time.Microsecond)
				}
				seq := p.NextSeq()
				replies, barrier := p.Exchange(sysh.Marshal(message.NewSessionDeletionRequest(0, 0, cs.up, seq, 0)), w.wait)
				o := sysh.Obs{Alive: barrier, Markers: [][]uint64{}}
				o.Decode(replies, seq)
				evs[a] = append(evs[a], map[string]interface{}{"k": "del", "a": a, "seid": cs.up, "obs": o, "conc": true})
				if o.Cause != 1 {
					keep = append(keep, cs)
				}
			}
			live[a] = keep
		}(a)
	}
	wg.Wait()
	flush("down")
}

// c11scripted: sessions of DIFFERENT associations sharing a gNB peer and an application filter, with every order of leaving,
// and a session that points to the shared peer without ever having forwarded through it.
func c11scripted(w *world, k int) {
	gnb := uint32(0xC6120150)
	mk := func(i int, buffering bool) ([]sysh.PdrIE, []sysh.FarIE, []sysh.QerIE) {
		ue := w.nextUE
		w.nextUE++
		teid := w.nextTEID
		w.nextTEID += 3
		ul := sysh.PdrIE{ID: 1, Prec: 100 + uint32(i), Src: u8p(0), Teid: u32p3(0, teid, n3IP), UE: u32p2(2, ue), Ohr: u8p(0), Far: 1, Sdf: strp(sdfPool[3])}
		dl := sysh.PdrIE{ID: 2, Prec: 100 + uint32(i), Src: u8p(1), UE: u32p2(2, ue), Far: 2, Sdf: strp(sdfPool[3])}
		far2 := sysh.FarIE{ID: 2, Act: 2, Fwd: &sysh.FwdIE{Dst: u8p(0), Ohc: u32p2(teid+1, gnb)}}
		if buffering {
			far2 = sysh.FarIE{ID: 2, Act: 0x0C}
		}
		return []sysh.PdrIE{ul, dl}, []sysh.FarIE{{ID: 1, Act: 2, Fwd: &sysh.FwdIE{Dst: u8p(1)}}, far2}, nil
	}
	est := func(a int, i int, buffering bool) *hsess {
		pdrs, fars, qers := mk(i, buffering)
		w.nextCP++
		h, _ := w.est(a, w.nodes[a], w.nextCP, pdrs, fars, qers, "c11-shared")
		return h
	}
	del := func(h *hsess) {
		if h != nil && !h.dead {
			if w.del(h.a, h.up, "c11-shared").Cause == 1 {
				h.dead = true
			}
		}
	}
	// A forwards through the peer; B (other association) buffers, is then told the same tunnel while still buffering, and leaves
	a := est(0, 1, false)
	b := est(1, 2, true)
	if b != nil {
		f := sysh.FarIE{ID: 2, Act: 0x0C, Fwd: &sysh.FwdIE{Dst: u8p(0), Ohc: u32p2(90000, gnb)}}
		if w.mod(b.a, b.up, modReq{uf: []sysh.FarIE{f}}, "c11-buffer-with-tunnel").Cause == 1 {
			b.fars[1] = f
		}
	}
	del(b)
	// D (other association): its UPLINK FAR carries an outer header creation naming the same gNB (N9 style): it takes no
	// reference on the peer, and its leaving must not touch the peer A forwards through
	{
		pdrs, fars, qers := mk(4, true)
		fars[0] = sysh.FarIE{ID: 1, Act: 2, Fwd: &sysh.FwdIE{Dst: u8p(1), Ohc: u32p2(90001, gnb)}}
		w.nextCP++
		d, _ := w.est(1, w.nodes[1], w.nextCP, pdrs, fars, qers, "c11-uplink-far-names-gnb")
		del(d)
	}
	// C shares peer and filter with A; they leave in either order; a deletion is repeated
	cs := est(1, 3, false)
	if k%2 == 0 {
		del(a)
		if a != nil {
			w.del(a.a, a.up, "c11-repeat")
		}
		del(cs)
	} else {
		del(cs)
		if cs != nil {
			w.del(cs.a, cs.up, "c11-repeat")
		}
		del(a)
	}
}
