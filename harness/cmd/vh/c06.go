package main

import (
	"verifharness/internal/sysh"
	"encoding/binary"
	"fmt"
	"net"
	"sort"
	"strings"
	"sync"

	"github.com/omec-project/upf-epc/pfcpiface"
)

func init() { props["C06"] = c06 }

func u32ip(v uint32) net.IP {
	ip := make(net.IP, 4)
	binary.BigEndian.PutUint32(ip, v)
	return ip
}

func ipu32(ip net.IP) int64 {
	ip4 := ip.To4()
	if ip4 == nil {
		return -2
	}
	return int64(binary.BigEndian.Uint32(ip4))
}

type poolOp struct {
	alloc bool
	seid  uint64
}

// runSeq executes ops on a fresh pool and writes one trace line with every observed result.
func c06Seq(c *ctx, class string, base uint32, plen int, ops []poolOp) {
	cidr := fmt.Sprintf("%s/%d", u32ip(base), plen)
	p, err := pfcpiface.NewIPPool(cidr)
	if err != nil {
		c.t.Case(class+"/newerr", true, "seq %d %d err", base, plen)
		return
	}
	var sb strings.Builder
	okAlloc, refused := 0, 0
	for _, op := range ops {
		if op.alloc {
			ip, err := p.LookupOrAllocIP(op.seid)
			if err != nil {
				fmt.Fprintf(&sb, " a %d -1", op.seid)
				refused++
			} else {
				fmt.Fprintf(&sb, " a %d %d", op.seid, ipu32(ip))
				okAlloc++
			}
		} else {
			err := p.DeallocIP(op.seid)
			fmt.Fprintf(&sb, " d %d %d", op.seid, b01(err == nil))
		}
	}
	cl := class
	if refused > 0 {
		cl += "/full"
	}
	c.t.Case(cl, okAlloc > 0, "seq %d %d %d%s", base, plen, len(ops), sb.String())
}

func c06Enum(c *ctx, base uint32, plen int, seids []uint64, maxLen int) int {
	alphabet := []poolOp{}
	for _, s := range seids {
		alphabet = append(alphabet, poolOp{true, s}, poolOp{false, s})
	}
	n := 0
	var rec func(prefix []poolOp)
	rec = func(prefix []poolOp) {
		if len(prefix) == maxLen {
			c06Seq(c, fmt.Sprintf("exh/%d", plen), base, plen, prefix)
			n++
			return
		}
		for _, a := range alphabet {
			rec(append(prefix, a))
		}
	}
	rec(nil)
	return n
}

func c06(c *ctx) {
	// construction: every prefix length 0..32 is tried for error class; pools enumerated for /20../32
	for plen := 16; plen <= 32; plen++ {
		for _, base := range []uint32{0x0A000000, 0x0A0000FF, 0xC0A80101, 0xFFFFFFF0, 0x00000000, 0x11000005, c.rng.Uint32()} {
			cidr := fmt.Sprintf("%s/%d", u32ip(base), plen)
			p, err := pfcpiface.NewIPPool(cidr)
			if err != nil {
				c.t.Case(fmt.Sprintf("new/%d/err", plen), true, "new %d %d err", base, plen)
				continue
			}
			// drain the pool: the hand-out order is the pool's content
			var got []int64
			for s := uint64(1); ; s++ {
				ip, err := p.LookupOrAllocIP(s)
				if err != nil {
					break
				}
				got = append(got, ipu32(ip))
				if len(got) > 70000 {
					break
				}
			}
			var sb strings.Builder
			if len(got) <= 16 {
				for _, g := range got {
					fmt.Fprintf(&sb, " %d", g)
				}
				c.t.Case(fmt.Sprintf("new/%d", plen), true, "new %d %d list %d%s", base, plen, len(got), sb.String())
			} else {
				sorted := sort.SliceIsSorted(got, func(i, j int) bool { return got[i] < got[j] })
				distinct := map[int64]bool{}
				for _, g := range got {
					distinct[g] = true
				}
				c.t.Case(fmt.Sprintf("new/%d", plen), true, "new %d %d span %d %d %d %d %d", base, plen, len(got), got[0], got[len(got)-1], b01(sorted), len(distinct))
			}
		}
	}
	for _, bad := range []string{"", "10.0.0.0", "10.0.0.0/33", "x/24", "10.0.0.0/-1", "300.0.0.0/24"} {
		_, err := pfcpiface.NewIPPool(bad)
		c.t.Case("new/malformed", true, "newbad %s %d", hexs(bad), b01(err == nil))
	}
	// bounded-exhaustive operation sequences on the two smallest pools
	n := c06Enum(c, 0x0A000000, 30, []uint64{1, 2, 3}, c.pick(6, 8))
	n += c06Enum(c, 0x0A000008, 29, []uint64{1, 2, 3, 4, 5, 6, 7}, c.pick(4, 5))
	c.extra["exhaustive_sequences"] = n
	// random sequences over more sessions than addresses
	for i := 0; i < c.pick(200, 5000); i++ {
		plen := 30 - c.rng.Intn(7) // /30../24
		size := (1 << uint(32-plen)) - 2
		nseid := size + 1 + c.rng.Intn(4)
		base := c.rng.Uint32()
		L := 20 + c.rng.Intn(380)
		ops := make([]poolOp, L)
		bias := c.rng.Intn(3) // 0: balanced, 1: alloc-heavy, 2: churn
		for j := range ops {
			a := c.rng.Intn(10) < []int{5, 8, 6}[bias]
			ops[j] = poolOp{a, uint64(1 + c.rng.Intn(nseid))}
		}
		c06Seq(c, fmt.Sprintf("rand/%d", plen), base, plen, ops)
	}
	c06conc(c)
	c06system(c)
}

// c06system: the pool on a running agent. Sessions come and go on a /29 (six addresses); the rule that made the UP allocate
// the address is removed or updated without the UE IP Address IE before the session ends, establishments are refused
// after the allocation: after every ending the pool holds exactly one address per live session that was given one.
func c06system(c *ctx) {
	r := c.rng
	w, err := newWorld(c, sysh.Opts{UEAlloc: true, Pool: "10.250.3.0/29", ReadTimeout: 600})
	if err != nil {
		panic(err)
	}
	defer w.close()
	w.cfgLine()
	if !w.start() {
		return
	}
	w.assoc(0)
	var live []*hsess
	for i := 0; i < c.pick(40, 600); i++ {
		pdrs, fars, qers := w.genSession(2)
		w.nextCP++
		switch r.Intn(6) {
		case 0: // refused after the address was allocated
			pdrs = append(pdrs, sysh.PdrIE{ID: 9, Prec: 1, Src: u8p(3), Far: 1})
		}
		h, _ := w.est(0, w.nodes[0], w.nextCP, pdrs, fars, qers, "c06")
		if h != nil {
			live = append(live, h)
			switch r.Intn(4) {
			case 0:
				w.mod(0, h.up, modReq{rp: []uint32{uint32(h.pdrs[1].ID)}}, "remove-allocating-pdr")
			case 1:
				p := h.pdrs[1]
				p.UE = nil
				w.mod(0, h.up, modReq{up: []sysh.PdrIE{p}}, "update-allocating-pdr-without-ue-ip")
			}
		}
		// keep at most four sessions: the oldest ends (deletion, or the peer reports the context gone)
		for len(live) > 0 && (len(live) > 4 || r.Intn(3) == 0) {
			if r.Intn(4) == 0 {
				w.endBy(0, "report65", live[0])
			} else {
				w.endBy(0, "delete", live[0])
			}
			live = live[1:]
		}
		w.stats("c06")
	}
	for _, h := range live {
		w.endBy(0, "delete", h)
	}
	w.stats("c06-end")
}

// c06conc: the pool under concurrent callers (also run by C11: the pool is shared by all associations).
func c06conc(c *ctx) {
	// concurrent runs: G goroutines allocate distinct sessions at once, observed at quiescent points
	for run := 0; run < c.pick(3, 50); run++ {
		plen := []int{24, 26, 27}[run%3]
		size := (1 << uint(32-plen)) - 2
		base := uint32(0x0A000000) + uint32(run)<<8
		p, _ := pfcpiface.NewIPPool(fmt.Sprintf("%s/%d", u32ip(base), plen))
		G := 32
		per := (size + 8) / G // a few more sessions than addresses
		if per < 1 {
			per = 1
		}
		res := make([]int64, G*per)
		var wg sync.WaitGroup
		for g := 0; g < G; g++ {
			wg.Add(1)
			go func(g int) {
				defer wg.Done()
				for k := 0; k < per; k++ {
					s := uint64(g*per + k + 1)
					ip, err := p.LookupOrAllocIP(s)
					if err != nil {
						res[g*per+k] = -1
					} else {
						res[g*per+k] = ipu32(ip)
					}
					// ask again: sticky under concurrency
					ip2, err2 := p.LookupOrAllocIP(s)
					if err == nil && (err2 != nil || ipu32(ip2) != res[g*per+k]) {
						res[g*per+k] = -3
					}
				}
			}(g)
		}
		wg.Wait()
		var sb strings.Builder
		for _, r := range res {
			fmt.Fprintf(&sb, " %d", r)
		}
		resStr := sb.String()
		// concurrent release of every second session, then re-allocation by new sessions
		rel := make([]int, G*per)
		for g := 0; g < G; g++ {
			wg.Add(1)
			go func(g int) {
				defer wg.Done()
				for k := 0; k < per; k++ {
					i := g*per + k
					if i%2 == 0 {
						rel[i] = b01(p.DeallocIP(uint64(i+1)) == nil)
					} else {
						rel[i] = 2
					}
				}
			}(g)
		}
		wg.Wait()
		sb.Reset()
		for _, r := range rel {
			fmt.Fprintf(&sb, " %d", r)
		}
		res2 := make([]int64, G*per)
		for g := 0; g < G; g++ {
			wg.Add(1)
			go func(g int) {
				defer wg.Done()
				for k := 0; k < per; k++ {
					i := g*per + k
					ip, err := p.LookupOrAllocIP(uint64(100000 + i))
					if err != nil {
						res2[i] = -1
					} else {
						res2[i] = ipu32(ip)
					}
				}
			}(g)
		}
		wg.Wait()
		var sb2 strings.Builder
		for _, r := range res2 {
			fmt.Fprintf(&sb2, " %d", r)
		}
		c.t.Case("conc", true, "conc %d %d %d%s |%s |%s", base, plen, len(res), resStr, sb.String(), sb2.String())
	}
	// contention on ONE session id: G goroutines ask for the same, not yet known session at once.
	// All must get the same address, and exactly one address per round may leave the free list.
	for run := 0; run < c.pick(4, 40); run++ {
		plen := 24
		size := (1 << uint(32-plen)) - 2
		base := uint32(0x0B000000) + uint32(run)<<8
		p, _ := pfcpiface.NewIPPool(fmt.Sprintf("%s/%d", u32ip(base), plen))
		R, G := 200, 16
		var sb strings.Builder
		for r := 0; r < R; r++ {
			res := make([]int64, G)
			var wg sync.WaitGroup
			start := make(chan struct{})
			for g := 0; g < G; g++ {
				wg.Add(1)
				go func(g int) {
					defer wg.Done()
					<-start
					ip, err := p.LookupOrAllocIP(uint64(r + 1))
					if err != nil {
						res[g] = -1
					} else {
						res[g] = ipu32(ip)
					}
				}(g)
			}
			close(start)
			wg.Wait()
			d := map[int64]bool{}
			for _, x := range res {
				d[x] = true
			}
			fmt.Fprintf(&sb, " %d", len(d))
		}
		drained := 0
		for s := uint64(1000000); ; s++ {
			if _, err := p.LookupOrAllocIP(s); err != nil {
				break
			}
			drained++
		}
		c.t.Case("conc/same-session", true, "same %d %d %d %d %d%s", base, plen, R, G, drained, sb.String())
		_ = size
	}
}
