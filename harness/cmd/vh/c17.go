package main

import (
	"encoding/hex"
	"fmt"
	"strings"

	"github.com/omec-project/upf-epc/pfcpiface"
)

func init() { props["C17"] = c17 }

// boundary ports: 0,1,2, every 2^k-1 / 2^k / 2^k+1, the neighbours of width 99..101, top values.
func boundaryPorts() []uint16 {
	m := map[uint16]bool{}
	add := func(v int) {
		if v >= 0 && v <= 65535 {
			m[uint16(v)] = true
		}
	}
	for _, v := range []int{0, 1, 2, 3, 5, 53, 80, 98, 99, 100, 101, 102, 443, 1023, 1024, 8080, 32767, 32768, 49152, 65533, 65534, 65535} {
		add(v)
	}
	for k := 0; k <= 16; k++ {
		add(1<<k - 1)
		add(1 << k)
		add(1<<k + 1)
		add(1<<k + 99)
		add(1<<k + 100)
		add(1<<k + 101)
		add(1<<k - 100)
		add(1<<k - 101)
	}
	out := make([]uint16, 0, len(m))
	for v := 0; v <= 65535; v++ {
		if m[uint16(v)] {
			out = append(out, uint16(v))
		}
	}
	return out
}

func b01(b bool) int {
	if b {
		return 1
	}
	return 0
}

func prClass(lo, hi uint16) string {
	switch {
	case lo == 0 && hi == 65535:
		return "wildcard"
	case lo == 0 && hi == 0:
		return "zero"
	case lo == hi:
		return "exact"
	case lo > hi:
		return "inverted"
	case int(hi)-int(lo)+1 <= 100:
		return "narrow"
	default:
		return "wide"
	}
}

func c17One(c *ctx, lo, hi uint16) {
	cl := prClass(lo, hi)
	w, e, r, width := pfcpiface.VerifPortPreds(lo, hi)
	c.t.Case("pred/"+cl, true, "pred %d %d %d %d %d %d", lo, hi, b01(w), b01(e), b01(r), width)
	nl, nh := pfcpiface.VerifNewRange(lo, hi)
	c.t.Case("newr/"+cl, true, "newr %d %d %d %d", lo, hi, nl, nh)
	tr_, err := pfcpiface.VerifTrivial(lo, hi)
	if err != nil {
		c.t.Case("triv/"+cl+"/err", true, "triv %d %d err", lo, hi)
	} else {
		c.t.Case("triv/"+cl+"/ok", true, "triv %d %d ok %d %d", lo, hi, tr_.Port, tr_.Mask)
	}
	for strat := 0; strat <= 1; strat++ {
		rs, err := pfcpiface.VerifComplex(lo, hi, strat)
		if err != nil {
			c.t.Case(fmt.Sprintf("cplx%d/%s/err", strat, cl), true, "cplx %d %d %d err", strat, lo, hi)
			continue
		}
		var sb strings.Builder
		for _, x := range rs {
			fmt.Fprintf(&sb, " %d %d", x.Port, x.Mask)
		}
		c.t.Case(fmt.Sprintf("cplx%d/%s/ok", strat, cl), true, "cplx %d %d %d ok %d%s", strat, lo, hi, len(rs), sb.String())
	}
}

func c17Prod(c *ctx, sl, sh, dl, dh uint16) {
	cl := prClass(sl, sh) + "x" + prClass(dl, dh)
	rs, err := pfcpiface.VerifProduct(sl, sh, dl, dh)
	if err != nil {
		c.t.Case("prod/"+cl+"/err", true, "prod %d %d %d %d err", sl, sh, dl, dh)
		return
	}
	var sb strings.Builder
	for _, x := range rs {
		fmt.Fprintf(&sb, " %d %d %d %d", x.SrcPort, x.SrcMask, x.DstPort, x.DstMask)
	}
	c.t.Case("prod/"+cl+"/ok", true, "prod %d %d %d %d ok %d%s", sl, sh, dl, dh, len(rs), sb.String())
}

func c17(c *ctx) {
	B := boundaryPorts()
	// single ranges: B x B (includes inverted ones), both strategies
	for _, lo := range B {
		for _, hi := range B {
			c17One(c, lo, hi)
		}
	}
	n := c.pick(20000, 400000)
	for i := 0; i < n; i++ {
		lo := uint16(c.rng.Intn(65536))
		var hi uint16
		switch c.rng.Intn(4) {
		case 0:
			hi = uint16(c.rng.Intn(65536))
		case 1:
			hi = lo + uint16(c.rng.Intn(130))
		case 2:
			hi = lo + uint16(c.rng.Intn(4096))
		default:
			hi = lo | uint16(1<<uint(c.rng.Intn(16))-1)
		}
		c17One(c, lo, hi)
	}
	// pairs of ranges drawn from the boundary classes
	reps := [][2]uint16{{0, 65535}, {0, 0}, {80, 80}, {1, 1}, {65535, 65535}, {10, 12}, {1, 99}, {1, 100}, {1, 101}, {0, 98}, {0, 99}, {0, 100},
		{1000, 1098}, {1000, 1099}, {1000, 1100}, {65436, 65535}, {65435, 65535}, {0, 65534}, {1, 65535}, {100, 50}, {5, 4}, {65535, 0}, {0, 1}, {32768, 32867}, {32768, 32868}}
	for _, s := range reps {
		for _, d := range reps {
			c17Prod(c, s[0], s[1], d[0], d[1])
		}
	}
	m := c.pick(3000, 100000)
	rr := func() (uint16, uint16) {
		switch c.rng.Intn(6) {
		case 0:
			return 0, 65535
		case 1:
			return 0, 0
		case 2:
			p := uint16(c.rng.Intn(65536))
			return p, p
		case 3:
			lo := uint16(c.rng.Intn(65536))
			return lo, lo + uint16(c.rng.Intn(104))
		case 4:
			lo := uint16(c.rng.Intn(65536))
			return lo, lo + uint16(97+c.rng.Intn(6))
		default:
			return uint16(c.rng.Intn(65536)), uint16(c.rng.Intn(65536))
		}
	}
	for i := 0; i < m; i++ {
		sl, sh := rr()
		dl, dh := rr()
		c17Prod(c, sl, sh, dl, dh)
	}
	// parsePort: decimal forms and the inverted range
	ports := []string{"80", "0", "65535", "65536", "1-2", "2-1", "100-50", "5-5", "0-65535", "0-0", "-", "1-", "-1", "1-2-3", "", "a", "1-a", "0x10", " 1", "1 ", "+1", "00080", "80-00081", "99999999999999999999"}
	for i := 0; i < c.pick(500, 20000); i++ {
		a, b := c.rng.Intn(70000), c.rng.Intn(70000)
		switch c.rng.Intn(3) {
		case 0:
			ports = append(ports, fmt.Sprintf("%d-%d", a, b))
		case 1:
			ports = append(ports, fmt.Sprintf("%d", a))
		default:
			ports = append(ports, fmt.Sprintf("%d-%d", a%65536, a%65536+c.rng.Intn(200)))
		}
	}
	for _, p := range ports {
		lo, hi, err := pfcpiface.VerifParsePort(p)
		h := hex.EncodeToString([]byte(p))
		if h == "" {
			h = "-"
		}
		if err != nil {
			c.t.Case("pport/err", true, "pport %s err", h)
		} else {
			c.t.Case("pport/ok", true, "pport %s ok %d %d", h, lo, hi)
		}
	}
	c.extra["boundary_ports"] = len(B)
}
