package main

import (
	"bufio"
	"encoding/json"
	"flag"
	"fmt"
	"os"
	"runtime/pprof"
	"strconv"
	"strings"

	"github.com/omec-project/upf-epc/logger"
	"github.com/omec-project/upf-epc/pfcpiface"
	"go.uber.org/zap/zapcore"
)

// agentd is the child mode: the real agent through its public API, plus a control loop on stdin.
func agentd(args []string) {
	confPath, bessAddr := args[0], args[1]
	if err := flag.Set("bess", bessAddr); err != nil {
		fmt.Println("@@ flag:", err)
		os.Exit(3)
	}
	conf, err := pfcpiface.LoadConfigFile(confPath)
	if err != nil {
		fmt.Println("@@ conf:", err)
		os.Exit(3)
	}
	if v := os.Getenv("VERIF_PEERS"); v != "" {
		conf.CPIface.Peers = strings.Split(v, ",")
	}
	lvl, _ := zapcore.ParseLevel(conf.LogLevel.String())
	logger.SetLogLevel(lvl)
	iface := pfcpiface.NewPFCPIface(conf)
	go func() {
		sc := bufio.NewScanner(os.Stdin)
		for sc.Scan() {
			f := strings.Fields(sc.Text())
			if len(f) == 0 {
				continue
			}
			switch f[0] {
			case "stats":
				b, _ := json.Marshal(iface.VerifStats())
				fmt.Println("@@ " + string(b))
			case "p4stats":
				b, _ := json.Marshal(iface.VerifUP4Stats())
				fmt.Println("@@ " + string(b))
			case "stop":
				go func() {
					iface.Stop()
					fmt.Println("@@ stopped")
				}()
			case "notify":
				v, _ := strconv.ParseUint(f[1], 10, 64)
				iface.VerifNotify(v)
				fmt.Println("@@ ok")
			case "dump":
				_ = pprof.Lookup("goroutine").WriteTo(os.Stderr, 1)
				fmt.Println("@@ ok")
			}
		}
		// parent gone
		os.Exit(0)
	}()
	iface.Run()
	fmt.Println("@@ exited")
}
