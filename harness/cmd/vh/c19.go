package main

import (
	"bufio"
	"bytes"
	"encoding/json"
	"fmt"
	"io"
	"net"
	"net/http"
	"strings"
	"time"

	"github.com/omec-project/upf-epc/pfcpiface"

	"verifharness/internal/sysh"
)

func init() { props["C19"] = c19 }

type sliceDoc struct {
	ul, dl   uint64
	unit     string
	hasUnit  bool
	ulb, dlb uint64
}

func (d sliceDoc) json() string {
	u := ""
	if d.hasUnit {
		u = fmt.Sprintf(`"bitrateUnit": %q, `, d.unit)
	}
	return fmt.Sprintf(`{"sliceName": "s1", "sliceQos": {"uplinkMbr": %d, "downlinkMbr": %d, %s"uplinkBurstSize": %d, "downlinkBurstSize": %d}, "ueResourceInfo": [{"dnn": "internet", "uePoolId": "pool1"}]}`, d.ul, d.dl, u, d.ulb, d.dlb)
}

func countJSONObjects(b []byte) int {
	dec := json.NewDecoder(bytes.NewReader(b))
	n := 0
	for {
		var v interface{}
		if err := dec.Decode(&v); err != nil {
			break
		}
		n++
	}
	return n
}

func sliceEntries(s *sysh.Sys) string {
	var out []string
	for _, l := range s.Bess.Snapshot() {
		if strings.HasPrefix(l, "sliceMeter|") {
			out = append(out, strings.TrimPrefix(l, "sliceMeter|"))
		}
	}
	if len(out) == 0 {
		return "-"
	}
	return strings.Join(out, " ")
}

func c19Req(c *ctx, s *sysh.Sys, class, method, bodyDesc string, body []byte, truncated bool) {
	url := fmt.Sprintf("http://127.0.0.1:%d/v1/config/network-slices", s.HTTPPort)
	before := s.Bess.Count()
	s.Bess.TakeLog()
	status, nobj := -1, 0
	if truncated {
		// a body shorter than its Content-Length: the handler's read fails
		conn, err := net.Dial("tcp", fmt.Sprintf("127.0.0.1:%d", s.HTTPPort))
		if err == nil {
			fmt.Fprintf(conn, "%s /v1/config/network-slices HTTP/1.1\r\nHost: x\r\nContent-Type: application/json\r\nContent-Length: %d\r\nConnection: close\r\n\r\n", method, len(body)+50)
			conn.Write(body)
			conn.(*net.TCPConn).CloseWrite()
			conn.SetReadDeadline(time.Now().Add(3 * time.Second))
			resp, err := http.ReadResponse(bufio.NewReader(conn), nil)
			if err == nil {
				b, _ := io.ReadAll(resp.Body)
				status, nobj = resp.StatusCode, countJSONObjects(b)
				resp.Body.Close()
			}
			conn.Close()
		}
	} else {
		req, _ := http.NewRequest(method, url, bytes.NewReader(body))
		req.Header.Set("Content-Type", "application/json")
		resp, err := http.DefaultClient.Do(req)
		if err == nil {
			b, _ := io.ReadAll(resp.Body)
			status, nobj = resp.StatusCode, countJSONObjects(b)
			if method == "HEAD" {
				nobj = 1 // a HEAD response carries no body by protocol
			}
			resp.Body.Close()
		}
	}
	// AddSliceInfo waits for its two commands; give a straggler a moment before counting
	time.Sleep(3 * time.Millisecond)
	ncmd := 0
	for _, l := range s.Bess.TakeLog() {
		if strings.HasPrefix(l, "sliceMeter ") {
			ncmd++
		}
	}
	_ = before
	alive := b01(!s.Exited())
	c.t.Case(class, status == 201, "rest %s %s => %d %d %d %d %s", method, bodyDesc, status, nobj, ncmd, alive, sliceEntries(s))
}

func c19(c *ctx) {
	// conversion grid through the real function
	units := []string{"bps", "Kbps", "Mbps", "Gbps", "", "kbps", "MBPS", "Tbps", "bps "}
	unitMul := map[string]uint64{"bps": 1, "Kbps": 1000, "Gbps": 1000000000}
	var rates []uint64
	for _, u := range units {
		m, ok := unitMul[u]
		if !ok {
			m = 1000000
		}
		lim := uint64(1<<63-1) / m
		rates = append(rates, lim-1, lim, lim+1, lim+2)
	}
	rates = append(rates, 0, 1, 2, 7, 8, 1000, 1<<32, 1<<40, 1<<62, 1<<63-1, 1<<63, 1<<63+1, ^uint64(0), ^uint64(0)-1, 9223372036854775, 9223372036854776, 18446744073709551)
	for i := 0; i < c.pick(300, 50000); i++ {
		switch c.rng.Intn(3) {
		case 0:
			rates = append(rates, c.rng.Uint64())
		case 1:
			rates = append(rates, c.rng.Uint64()>>uint(c.rng.Intn(64)))
		default:
			m := []uint64{1000, 1000000, 1000000000}[c.rng.Intn(3)]
			rates = append(rates, uint64(1<<63)/m+uint64(c.rng.Intn(7))-3, (^uint64(0))/m+uint64(c.rng.Intn(7))-3)
		}
	}
	for _, u := range units {
		for _, r := range rates {
			c.t.Case("calc/"+u, true, "calc %d %s => %d", r, hexs(u), pfcpiface.VerifCalculateBitRates(r, u))
		}
	}
	// black box through the agent's HTTP port
	s, err := sysh.New(sysh.Opts{ReadTimeout: 30})
	if err != nil {
		panic(err)
	}
	defer s.Close()
	if err := s.Start(); err != nil {
		c.t.Note("agent did not start: %v", err)
		c.t.Case("rest/start-failed", false, "rest START - => -1 0 0 0 -")
		return
	}
	var docs []sliceDoc
	bnd := []uint64{0, 1, 8, 1000, 9223372036854, 9223372036855, 1 << 62, 1<<63 - 1, 1 << 63, ^uint64(0)}
	for i, u := range []string{"bps", "Kbps", "Mbps", "Gbps", "", "weird"} {
		for j, r := range bnd {
			d := sliceDoc{ul: r, dl: bnd[(i+j*3)%len(bnd)], unit: u, hasUnit: u != "", ulb: []uint64{0, 1, 48448, 1 << 40, ^uint64(0)}[(i+j)%5], dlb: []uint64{70000, 0, 1, ^uint64(0), 5}[(i*2+j)%5]}
			docs = append(docs, d)
		}
	}
	for i := 0; i < c.pick(40, 3000); i++ {
		docs = append(docs, sliceDoc{ul: c.rng.Uint64() >> uint(c.rng.Intn(64)), dl: c.rng.Uint64() >> uint(c.rng.Intn(64)), unit: units[c.rng.Intn(4)], hasUnit: c.rng.Intn(4) > 0, ulb: c.rng.Uint64() >> uint(c.rng.Intn(64)), dlb: uint64(c.rng.Intn(3)) * c.rng.Uint64()})
	}
	for i, d := range docs {
		m := []string{"POST", "PUT"}[i%2]
		u := "-"
		if d.hasUnit {
			u = hexs(d.unit)
			if u == "-" {
				u = "--"
			}
		}
		c19Req(c, s, "rest/ok/"+m, m, fmt.Sprintf("ok %d %d %s %d %d", d.ul, d.dl, u, d.ulb, d.dlb), []byte(d.json()), false)
	}
	bad := []string{"not json", "", "{", "[]", `"x"`, "123", `{"sliceQos": "x"}`, `{"sliceQos": {"uplinkMbr": -1}}`, `{"sliceQos": {"uplinkMbr": 1.5}}`, `{"sliceQos": {"uplinkMbr": 18446744073709551616}}`,
		`{"sliceQos": {"uplinkMbr": "5"}}`, `{"sliceName": 5}`, `{"ueResourceInfo": {}}`, "\x00\x01\x02", `{"sliceQos": {"uplinkMbr": 5}`, "null x"}
	for i, b := range bad {
		for _, m := range []string{"POST", "PUT"} {
			c19Req(c, s, "rest/malformed", m, "malformed "+hexs(b), []byte(b), false)
		}
		_ = i
	}
	good := []byte(sliceDoc{ul: 5, dl: 7, unit: "Mbps", hasUnit: true, ulb: 9, dlb: 11}.json())
	for _, m := range []string{"POST", "PUT"} {
		c19Req(c, s, "rest/unreadable", m, "unreadable", good[:len(good)/2], true)
		c19Req(c, s, "rest/unreadable", m, "unreadable", nil, true)
	}
	for _, m := range []string{"GET", "DELETE", "PATCH", "HEAD", "OPTIONS", "post", "TRACE"} {
		c19Req(c, s, "rest/other-method", m, "other "+hexs(string(good)), good, false)
		c19Req(c, s, "rest/other-method", m, "other -", nil, false)
	}
	// a valid document after all that must still be programmed
	c19Req(c, s, "rest/ok/after", "POST", "ok 5 7 "+hexs("Mbps")+" 9 11", good, false)
	// JSON null is a decodable (empty) document
	c19Req(c, s, "rest/ok/null", "POST", "ok 0 0 - 0 0", []byte("null"), false)
	c19Req(c, s, "rest/ok/empty-object", "PUT", "ok 0 0 - 0 0", []byte("{}"), false)
}
