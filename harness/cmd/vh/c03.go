package main

import (
	"verifharness/internal/sysh"
)

func init() { props["C03"] = c03 }

// history drives one random history of session requests on the running agent.
func (w *world) history(steps int, keyChanging bool) {
	r := w.c.rng
	for i := 0; i < steps; i++ {
		var live []*hsess
		for _, s := range w.sessions {
			if !s.dead {
				live = append(live, s)
			}
		}
		choice := r.Intn(10)
		if len(live) == 0 || (choice < 3 && len(live) < 6) {
			a := r.Intn(len(w.peers))
			pdrs, fars, qers := w.genSession(r.Intn(8))
			w.nextCP++
			w.est(a, w.nodes[a], w.nextCP, pdrs, fars, qers, "new")
			continue
		}
		s := live[r.Intn(len(live))]
		switch {
		case choice < 4:
			if w.del(s.a, s.up, "live").Cause == 1 {
				s.dead = true
			}
		case choice == 4: // handover: the downlink FAR moves to another gNB, with or without end marker
			if len(s.fars) < 2 || s.fars[1].Fwd == nil || s.fars[1].Fwd.Ohc == nil {
				continue
			}
			f := s.fars[1]
			fw := *f.Fwd
			fw.Ohc = u32p2(f.Fwd.Ohc[0]+100, 0xC6120200+uint32(r.Intn(3)))
			if r.Intn(2) == 0 {
				fw.Sm = u8p(2)
			}
			f.Fwd = &fw
			if w.mod(s.a, s.up, modReq{uf: []sysh.FarIE{f}}, "update-far").Cause == 1 {
				s.fars[1] = f
				s.fars[1].Fwd.Sm = nil
			}
		case choice == 5: // a new PDR with its FAR and QER
			id := uint16(10 + len(s.pdrs))
			ue := uint32(0)
			if s.pdrs[0].UE != nil {
				ue = s.pdrs[0].UE[1]
			}
			// (a filter no live rule of the session uses: two rules with one match key are an ambiguous rule set, outside the envelope)
			var free []string
			for _, f := range sdfPool[1:] {
				used := false
				for _, q := range s.pdrs {
					used = used || (q.Sdf != nil && *q.Sdf == f)
				}
				if !used {
					free = append(free, f)
				}
			}
			if len(free) == 0 {
				continue
			}
			p := sysh.PdrIE{ID: id, Prec: precedences[r.Intn(len(precedences))], Src: u8p(1), UE: u32p2(2, ue), Sdf: strp(free[r.Intn(len(free))]), Far: uint32(id), Qers: []uint32{uint32(id)}}
			if ue == 0 {
				p.UE = nil
				p.Teid = u32p3(0, w.nextTEID, n3IP)
				p.Src = u8p(0)
				w.nextTEID++
			}
			f := sysh.FarIE{ID: uint32(id), Act: 1}
			q := sysh.QerIE{ID: uint32(id), Qfi: 7, Mbr: [2]uint64{uint64(r.Intn(9999)), 5}}
			if w.mod(s.a, s.up, modReq{cp: []sysh.PdrIE{p}, cf: []sysh.FarIE{f}, cq: []sysh.QerIE{q}}, "create").Cause == 1 {
				s.pdrs, s.fars, s.qers = append(s.pdrs, p), append(s.fars, f), append(s.qers, q)
			}
		case choice == 6: // update a QER's rates / gates; update a PDR without touching its key
			var m modReq
			if len(s.qers) > 0 {
				q := s.qers[r.Intn(len(s.qers))]
				q.Mbr = [2]uint64{uint64(r.Intn(100000)), uint64(r.Intn(100000))}
				q.Gate = [2]uint8{uint8(r.Intn(2)), 0}
				m.uq = []sysh.QerIE{q}
			}
			p := s.pdrs[r.Intn(len(s.pdrs))]
			p.Prec = precedences[r.Intn(len(precedences))]
			if keyChanging && p.Teid != nil && p.Teid[0] == 0 && r.Intn(2) == 0 {
				p.Teid = u32p3(0, 0x100000+w.nextTEID, n3IP) // the rule's table key changes (to a TEID nothing else uses)
				w.nextTEID++
			}
			m.up = []sysh.PdrIE{p}
			if w.mod(s.a, s.up, m, "update").Cause == 1 {
				for i := range s.pdrs {
					if s.pdrs[i].ID == p.ID {
						s.pdrs[i] = p
					}
				}
				for i := range s.qers {
					if len(m.uq) > 0 && s.qers[i].ID == m.uq[0].ID {
						s.qers[i] = m.uq[0]
					}
				}
			}
		case choice == 7: // remove one PDR (any position, also several in one message) with the FAR / QER only it uses
			n := len(s.pdrs)
			if n < 3 {
				continue
			}
			var m modReq
			drop := map[int]bool{}
			for k := 0; k < 1+r.Intn(2); k++ {
				drop[1+r.Intn(n-1)] = true
			}
			usedFar, usedQer := map[uint32]int{}, map[uint32]int{}
			for i, p := range s.pdrs {
				if !drop[i] {
					usedFar[p.Far]++
					for _, q := range p.Qers {
						usedQer[q]++
					}
				}
			}
			dropFar, dropQer := map[uint32]bool{}, map[uint32]bool{}
			for i, p := range s.pdrs {
				if !drop[i] {
					continue
				}
				m.rp = append(m.rp, uint32(p.ID))
				if usedFar[p.Far] == 0 && !dropFar[p.Far] {
					for _, f := range s.fars {
						if f.ID == p.Far {
							dropFar[p.Far] = true
							m.rf = append(m.rf, f.ID)
						}
					}
				}
				for _, q := range p.Qers {
					if usedQer[q] == 0 && !dropQer[q] {
						for _, x := range s.qers {
							if x.ID == q {
								dropQer[q] = true
								m.rq = append(m.rq, q)
							}
						}
					}
				}
			}
			if w.mod(s.a, s.up, m, "remove").Cause == 1 {
				var np []sysh.PdrIE
				for i, p := range s.pdrs {
					if !drop[i] {
						np = append(np, p)
					}
				}
				s.pdrs = np
				var nf []sysh.FarIE
				for _, f := range s.fars {
					if !dropFar[f.ID] {
						nf = append(nf, f)
					}
				}
				s.fars = nf
				var nq []sysh.QerIE
				for _, q := range s.qers {
					if !dropQer[q.ID] {
						nq = append(nq, q)
					}
				}
				s.qers = nq
			}
		case choice == 8 && r.Intn(2) == 0: // updates of rules the session does not have: skipped, nothing is written for them
			f := s.fars[0]
			f.ID = 70 + uint32(r.Intn(5))
			q := sysh.QerIE{ID: 80 + uint32(r.Intn(5)), Qfi: 3, Mbr: [2]uint64{111, 222}}
			p := s.pdrs[0]
			p.ID = uint16(90 + r.Intn(5))
			var m modReq
			switch r.Intn(4) {
			case 0:
				m.uf = []sysh.FarIE{f}
			case 1:
				m.uq = []sysh.QerIE{q}
			case 2:
				m.up = []sysh.PdrIE{p}
			default:
				m.uf, m.uq = []sysh.FarIE{f}, []sysh.QerIE{q}
			}
			w.mod(s.a, s.up, m, "update-unknown-rule")
		case choice == 8 && r.Intn(3) == 0: // a modification refused AFTER it removed rules (unknown Remove ID last): the stored session must be untouched
			var m modReq
			if len(s.pdrs) > 1 {
				m.rp = []uint32{uint32(s.pdrs[r.Intn(len(s.pdrs)-1)].ID)} // not the last one
			}
			if len(s.fars) > 1 && r.Intn(2) == 0 {
				m.rf = []uint32{s.fars[0].ID}
			}
			m.rq = []uint32{999}
			w.mod(s.a, s.up, m, "remove-then-refused")
		case choice == 8: // requests that must be rejected and write nothing
			switch r.Intn(3) {
			case 0:
				w.del(s.a, s.up^0x5555, "unknown")
			case 1:
				w.mod(s.a, s.up^0x3333, modReq{uf: []sysh.FarIE{s.fars[0]}}, "unknown")
			default:
				pdrs, fars, qers := w.genSession(0)
				w.est(s.a, "203.0.113.99", 1, pdrs, fars, qers, "no-association")
			}
		default: // the control plane moves the session to another CP F-SEID
			w.nextCP++
			if w.mod(s.a, s.up, modReq{cpf: &[2]uint64{w.nextCP, 0x0A000001}}, "cp-fseid").Cause == 1 {
				s.cp = w.nextCP
			}
		}
	}
}

func c03(c *ctx) {
	w, err := newWorld(c, sysh.Opts{UEAlloc: true, Pool: "10.250.0.0/24", EndMarker: true, ReadTimeout: 600,
		QCI: []map[string]int{{"qci": 0, "cbs": 50000, "pbs": 50000, "ebs": 50000, "burst_duration_ms": 10, "priority": 7}, {"qci": 9, "cbs": 2048, "pbs": 2048, "ebs": 2048, "burst_duration_ms": 10, "priority": 6}}})
	if err != nil {
		panic(err)
	}
	defer w.close()
	w.cfgLine()
	// leftovers of a previous, killed incarnation: they must be gone after start-up
	w.s.Bess.Seed("pdrLookup", "1,2,3,4,5,6,7,8/255,0,0,0,0,0,0,0", "0,1,1,99,0,0,1")
	w.s.Bess.Seed("farLookup", "7,99", "0,1,0,0,0,0,0")
	w.s.Bess.Seed("appQERLookup", "1,7,99", "0,1,1,1,1,1,9")
	w.s.Bess.Seed("sessionQERLookup", "2,99", "0,1,1,1,1,1")
	rounds := c.pick(30, 400)
	for round := 0; round < rounds; round++ {
		if !w.start() {
			return
		}
		w.assoc(0)
		w.assoc(1)
		if round == 1 {
			w.markingReordersStoredPDR()
		}
		// every fourth incarnation also sends Update PDRs that move a rule to another match key
		w.history(4+c.rng.Intn(10), round%4 == 3)
		// end of the incarnation: the agent is killed with whatever it had installed
		w.s.Kill()
	}
}

// markingReordersStoredPDR: the scripted witness of the open finding C03-marking-reorders-stored-pdr (DESIGN 0.4): a PDR is
// programmed while the marking returns early (another PDR shares no QER with it), and a later modification that does not carry
// the PDR lets the marking move the session QER's ID to the end of its stored list.
func (w *world) markingReordersStoredPDR() {
	pdrs, fars, qers := w.genSession(4) // QER lists [4,1] [4,2] [4,3]: QER 4 is the session's
	w.nextCP++
	h, _ := w.est(0, w.nodes[0], w.nextCP, pdrs, fars, qers, "scripted-reorder")
	if h == nil {
		return
	}
	// (a filter no rule of the session uses: two rules with one match key are an ambiguous rule set, outside the envelope)
	f13 := "permit out udp from 172.16.9.0/24 4500 to assigned"
	p13 := sysh.PdrIE{ID: 13, Prec: 4294967295, Src: u8p(1), UE: pdrs[1].UE, Sdf: strp(f13), Far: 13, Qers: []uint32{13}}
	w.mod(0, h.up, modReq{cp: []sysh.PdrIE{p13}, cf: []sysh.FarIE{{ID: 13, Act: 1}}, cq: []sysh.QerIE{{ID: 13, Qfi: 7, Mbr: [2]uint64{6183, 5}}}}, "scripted-reorder")
	p1 := pdrs[0]
	p1.Prec = 65535
	w.mod(0, h.up, modReq{up: []sysh.PdrIE{p1}}, "scripted-reorder") // sent as [4,1]; no QER common to all PDRs: nothing is reordered
	w.mod(0, h.up, modReq{rp: []uint32{13}, rf: []uint32{13}, rq: []uint32{13}}, "scripted-reorder")
	w.mod(0, h.up, modReq{uq: []sysh.QerIE{{ID: 84, Qfi: 3, Mbr: [2]uint64{111, 222}}}}, "scripted-reorder") // unknown QER: nothing is sent, the marking runs
	if w.del(0, h.up, "scripted-reorder").Cause == 1 {
		h.dead = true
	}
}
