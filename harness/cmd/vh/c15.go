package main

import (
	"fmt"
	"math/rand"

	"verifharness/internal/sysh"
)

func init() { props["C15"] = c15 }

// A scenario is a fixed sequence of requests over several sessions that share a gNB peer and an application
// filter; it is replayed once without faults (to count the Write RPCs of every step) and then once per
// (step, write position, kind of failure), each time on a freshly started agent, and is followed by
// further sessions that would receive any identifier that was wrongly handed back.
type p4step struct {
	name string
	run  func(w *world, ss map[string]*hsess)
}

func p4scenario(v int) []p4step {
	gnb := uint32(0xC6120100)
	q := func(id uint32, mbr uint64) sysh.QerIE {
		return sysh.QerIE{ID: id, Qfi: 9, Mbr: [2]uint64{mbr, mbr * 2}}
	}
	mk := func(k int, shape int) ([]sysh.PdrIE, []sysh.FarIE, []sysh.QerIE) {
		ue := uint32(0x0A3C0001 + k)
		teid := uint32(1000 + 10*k)
		ul := sysh.PdrIE{ID: 1, Prec: 100, Src: u8p(0), Teid: u32p3(0, teid, n3IP), UE: u32p2(2, ue), Ohr: u8p(0), Far: 1}
		dl := sysh.PdrIE{ID: 2, Prec: 100, Src: u8p(1), UE: u32p2(2, ue), Far: 2}
		fars := []sysh.FarIE{{ID: 1, Act: 2, Fwd: &sysh.FwdIE{Dst: u8p(1)}}, {ID: 2, Act: 2, Fwd: &sysh.FwdIE{Dst: u8p(0), Ohc: u32p2(teid+1, gnb)}}}
		switch shape {
		case 0: // per-direction application QERs, a session QER, an application filter on both PDRs
			ul.Sdf, dl.Sdf = strp(sdfPool[2]), strp(sdfPool[2])
			ul.Qers, dl.Qers = []uint32{1, 4}, []uint32{2, 4}
			return []sysh.PdrIE{ul, dl}, fars, []sysh.QerIE{q(1, 1000), q(2, 2000), q(4, 50000)}
		case 1: // one QER for both directions (bidirectional application meter)
			ul.Qers, dl.Qers = []uint32{1}, []uint32{1}
			return []sysh.PdrIE{ul, dl}, fars, []sysh.QerIE{q(1, 3000)}
		default: // no QER, application filter shared with shape 0
			ul.Sdf, dl.Sdf = strp(sdfPool[2]), strp(sdfPool[2])
			return []sysh.PdrIE{ul, dl}, fars, nil
		}
	}
	est := func(name string, k, shape int) p4step {
		return p4step{"est " + name, func(w *world, ss map[string]*hsess) {
			pdrs, fars, qers := mk(k, shape)
			w.nextCP++
			if h, _ := w.est(0, w.nodes[0], w.nextCP, pdrs, fars, qers, "c15"); h != nil {
				ss[name] = h
			}
		}}
	}
	del := func(name string) p4step {
		return p4step{"del " + name, func(w *world, ss map[string]*hsess) {
			if h := ss[name]; h != nil {
				if w.del(0, h.up, "c15").Cause == 1 {
					delete(ss, name)
				}
			}
		}}
	}
	modFar := func(name string, act uint8, keep bool) p4step {
		return p4step{fmt.Sprintf("mod %s far act=%d", name, act), func(w *world, ss map[string]*hsess) {
			if h := ss[name]; h != nil {
				f := h.fars[1]
				f.Act = act
				if !keep {
					f.Fwd = nil
				}
				if w.mod(0, h.up, modReq{uf: []sysh.FarIE{f}}, "c15").Cause == 1 {
					h.fars[1] = f
				}
			}
		}}
	}
	modQer := func(name string) p4step {
		return p4step{"mod " + name + " qer", func(w *world, ss map[string]*hsess) {
			if h := ss[name]; h != nil && len(h.qers) > 0 {
				qq := h.qers[0]
				qq.Mbr = [2]uint64{7777, 8888}
				qq.Gate = [2]uint8{1, 0}
				if w.mod(0, h.up, modReq{uq: []sysh.QerIE{qq}}, "c15").Cause == 1 {
					h.qers[0] = qq
				}
			}
		}}
	}
	modRemoveQer := func(name string) p4step {
		return p4step{"mod " + name + " remove qer", func(w *world, ss map[string]*hsess) {
			if h := ss[name]; h != nil && len(h.qers) > 0 {
				id := h.qers[len(h.qers)-1].ID
				if w.mod(0, h.up, modReq{rq: []uint32{id}}, "c15-remove-qer").Cause == 1 {
					h.qers = h.qers[:len(h.qers)-1]
				}
			}
		}}
	}
	if v == 4 {
		// a pipeline with 8 counter cells, six of them held when establishment D meets its faults: whatever a failed write
		// makes the agent hand back is, more likely than not, a cell a live PDR counts with
		return []p4step{est("A", 1, 1), est("B", 2, 2), est("C", 3, 1), est("D", 4, 1), modQer("D"), del("A"), del("B"), del("C"), del("D")}
	}
	if v%4 == 3 {
		// a session whose two QERs are referenced by every PDR: one of them is session-level, and an Update QER that lowers its
		// rate makes the marking pick the other one; the cells were allocated under the first labelling
		estBoth := p4step{"est R", func(w *world, ss map[string]*hsess) {
			pdrs, fars, _ := mk(5, 1)
			pdrs[0].Qers, pdrs[1].Qers = []uint32{1, 4}, []uint32{1, 4}
			qers := []sysh.QerIE{q(1, 1000), q(4, 50000)}
			w.nextCP++
			if h, _ := w.est(0, w.nodes[0], w.nextCP, pdrs, fars, qers, "c15-both"); h != nil {
				ss["R"] = h
			}
		}}
		lower := p4step{"mod R lower session QER", func(w *world, ss map[string]*hsess) {
			if h := ss["R"]; h != nil {
				qq := h.qers[1]
				qq.Mbr = [2]uint64{10, 20}
				if w.mod(0, h.up, modReq{uq: []sysh.QerIE{qq}}, "c15-relabel").Cause == 1 {
					h.qers[1] = qq
				}
			}
		}}
		return []p4step{est("A", 1, 0), estBoth, lower, del("R"), est("B", 2, 0), est("C", 3, 1), del("A"), del("B"), del("C")}
	}
	switch v % 3 {
	case 0:
		return []p4step{est("A", 1, 0), est("B", 2, 0), modFar("A", 0x0C, true), modFar("A", 2, true), modQer("B"), del("B"), est("C", 3, 0), modFar("C", 2, true), del("A"), del("C"), est("D", 4, 1), del("D")}
	case 1:
		return []p4step{est("A", 1, 1), est("B", 2, 2), modQer("A"), modRemoveQer("A"), del("A"), est("C", 3, 1), est("D", 4, 0), del("B"), del("C"), del("D")}
	default:
		return []p4step{est("A", 1, 2), est("B", 2, 0), modFar("B", 0x0C, true), del("B"), est("C", 3, 0), modFar("C", 2, true), del("A"), del("C")}
	}
}

func c15(c *ctx) {
	r := c.rng
	nScen := c.pick(5, 5)
	for v := 0; v < nScen; v++ {
		o := sysh.Opts{P4: true, Pool: "10.60.0.0/16", P4DefaultTC: 3}
		if v == 4 {
			o.P4CtrSize = 8
		}
		w, err := newWorld(c, o)
		if err != nil {
			panic(err)
		}
		steps := p4scenario(v)
		// --- fault-free run: count the writes of every step
		w.cfgLine()
		if !w.start() {
			w.close()
			return
		}
		w.assoc(0)
		counts := make([]int, len(steps))
		ss := map[string]*hsess{}
		for i, st := range steps {
			n0 := w.s.P4.Count()
			st.run(w, ss)
			counts[i] = w.s.P4.Count() - n0
		}
		w.close()
		// --- one run per failing position
		type fault struct {
			step, k int
			mode    string
			j, code int
		}
		var faults []fault
		for i := range steps {
			for k := 1; k <= counts[i]; k++ {
				faults = append(faults, fault{i, k, "rpc", 0, 0})
				if c.thorough() || (i+k)%2 == 0 {
					faults = append(faults, fault{i, k, "upd", 0, 13}) // INTERNAL on the first update
					faults = append(faults, fault{i, k, "upd", 1, 8})  // RESOURCE_EXHAUSTED on the second update (when there is one)
				}
			}
		}
		if !c.thorough() && len(faults) > 45 {
			r.Shuffle(len(faults), func(a, b int) { faults[a], faults[b] = faults[b], faults[a] })
			faults = faults[:45]
		}
		for _, f := range faults {
			runFaulted(c, o, steps, []struct {
				step, k int
				mode    string
				j, code int
			}{{f.step, f.k, f.mode, f.j, f.code}}, r)
		}
		// --- random multi-fault sequences
		for m := 0; m < c.pick(6, 600); m++ {
			var fs []struct {
				step, k int
				mode    string
				j, code int
			}
			for i := range steps {
				if counts[i] > 0 && r.Intn(3) == 0 {
					fs = append(fs, struct {
						step, k int
						mode    string
						j, code int
					}{i, 1 + r.Intn(counts[i]), []string{"rpc", "upd"}[r.Intn(2)], r.Intn(2), []int{13, 8, 14, 4}[r.Intn(4)]})
				}
			}
			runFaulted(c, o, steps, fs, r)
		}
	}
}

func runFaulted(c *ctx, o sysh.Opts, steps []p4step, faults []struct {
	step, k int
	mode    string
	j, code int
}, r *rand.Rand) {
	w, err := newWorld(c, o)
	if err != nil {
		panic(err)
	}
	defer w.close()
	w.cfgLine()
	if !w.start() {
		return
	}
	w.assoc(0)
	ss := map[string]*hsess{}
	for i, st := range steps {
		base := w.s.P4.Count()
		w.s.P4.Fault = func(n int, ups []sysh.P4Up) (string, int, int) {
			for _, f := range faults {
				if f.step == i && n == base+f.k {
					if f.mode == "upd" && f.j >= len(ups) {
						return "upd", 0, f.code
					}
					return f.mode, f.j, f.code
				}
			}
			return "", 0, 0
		}
		st.run(w, ss)
		w.s.P4.Fault = nil
	}
	// further sessions: they would receive any identifier that was handed back while still in use
	w.nextUE, w.nextTEID = 0x0A3C0100, 5000
	var more []*hsess
	for k := 0; k < 3; k++ {
		pdrs, fars, qers := w.p4session()
		w.nextCP++
		if h, _ := w.est(0, w.nodes[0], w.nextCP, pdrs, fars, qers, "c15-after"); h != nil {
			more = append(more, h)
		}
	}
	for _, h := range more {
		w.del(0, h.up, "c15-after")
	}
}
