package main

import (
	"encoding/json"
	"fmt"
	"net"
	"time"

	"github.com/google/gopacket"
	"github.com/google/gopacket/layers"
	"github.com/wmnsk/go-pfcp/ie"
	"github.com/wmnsk/go-pfcp/message"

	"verifharness/internal/sysh"
)

// hsess is the harness's own record of a session it established (to aim later requests).
type hsess struct {
	a    int
	up   uint64
	cp   uint64
	pdrs []sysh.PdrIE
	fars []sysh.FarIE
	qers []sysh.QerIE
	dead bool
}

type world struct {
	c        *ctx
	s        *sysh.Sys
	peers    []*sysh.Peer
	nodes    []string
	sessions []*hsess
	nextUE   uint32
	nextTEID uint32
	nextCP   uint64
	wait     time.Duration
	seqNext  uint32 // when non-zero, the next request uses this sequence number
	quiet    bool   // no events are written (scenarios judged by a line of their own)
}

func newWorld(c *ctx, o sysh.Opts) (*world, error) {
	s, err := sysh.New(o)
	if err != nil {
		return nil, err
	}
	w := &world{c: c, s: s, nextUE: 0x0A3C0001, nextTEID: 1000, nextCP: 5000, wait: 2500 * time.Millisecond}
	return w, nil
}

// seq returns the sequence number for the next request of peer p.
func (w *world) seq(p *sysh.Peer) uint32 {
	if w.seqNext != 0 {
		s := w.seqNext & 0xFFFFFF
		w.seqNext = 0
		return s
	}
	return p.NextSeq()
}

func (w *world) emit(class string, nontrivial bool, ev map[string]interface{}) {
	if w.quiet {
		return
	}
	b, err := json.Marshal(ev)
	if err != nil {
		panic(err)
	}
	w.c.t.Case(class, nontrivial, "%s", string(b))
}

func (w *world) cfgLine() {
	o := w.s.Opts
	ev := map[string]interface{}{"k": "cfg", "access": sysh.U32(net.ParseIP("127.0.0.1")), "core": sysh.U32(net.ParseIP("127.0.0.1")),
		"ueAlloc": o.UEAlloc, "endMarker": o.EndMarker, "n4": sysh.U32(net.ParseIP(w.s.N4))}
	if o.UEAlloc {
		_, n, _ := net.ParseCIDR(o.Pool)
		ones, _ := n.Mask.Size()
		ev["pool"] = []uint32{sysh.U32(n.IP), uint32(ones)}
	}
	var qci [][]int
	for _, q := range o.QCI {
		qci = append(qci, []int{q["qci"], q["cbs"], q["pbs"], q["ebs"], q["burst_duration_ms"]})
	}
	ev["qci"] = qci
	if o.P4 {
		acc := o.P4Access
		if acc == "" {
			acc = "198.18.0.1/32"
		}
		ip, n, _ := net.ParseCIDR(acc)
		ones, _ := n.Mask.Size()
		_ = ip
		ev["access"] = sysh.U32(n.IP) // MustParseStrIP keeps the masked address (net.ParseCIDR's network): what up4.accessIP.IP is
		_, pn, _ := net.ParseCIDR(o.Pool)
		pones, _ := pn.Mask.Size()
		tcs := [][]int{}
		for k, v := range o.P4QfiTC {
			var q int
			fmt.Sscanf(k, "%d", &q)
			tcs = append(tcs, []int{q, v})
		}
		ev["p4"] = map[string]interface{}{"accessLen": ones, "uePool": []uint32{sysh.U32(pn.IP), uint32(pones)}, "slice": o.P4Slice, "defaultTC": o.P4DefaultTC, "qfiTC": tcs, "clear": o.P4Clear, "ctrSize": o.P4CtrSize}
	}
	w.emit("cfg", false, ev)
}

// start (re)starts the agent and records what the lookup modules hold afterwards.
func (w *world) start() bool {
	if err := w.s.Start(); err != nil {
		w.c.t.Note("agent did not start: %v", err)
		w.emit("start/failed", false, map[string]interface{}{"k": "note", "msg": "start failed: " + err.Error()})
		return false
	}
	for _, p := range w.peers {
		p.Close()
	}
	w.peers, w.nodes, w.sessions = nil, nil, nil
	obs := map[string]interface{}{"tables": w.s.Bess.Snapshot()}
	if w.s.P4 != nil {
		obs["p4"] = w.s.P4Observe()
	}
	w.emit("start", true, map[string]interface{}{"k": "start", "obs": obs})
	return true
}

func (w *world) observe(replies [][]byte, barrier bool, seq uint32, markers bool) sysh.Obs {
	o := sysh.Obs{Alive: !w.s.Exited() && barrier}
	if !o.Alive {
		if w.s.Exited() || w.s.WaitExit(300*time.Millisecond) {
			o.Crash = w.s.CrashInfo()
		} else {
			o.Crash = "no_answer_to_heartbeat_(wedged)"
		}
	}
	o.Decode(replies, seq)
	o.Markers = [][]uint64{}
	if markers {
		// markers travel through a channel and a unixpacket socket: collect until quiet
		quiet := time.NewTimer(8 * time.Millisecond)
	loop:
		for {
			select {
			case pkt := <-w.s.Markers:
				o.Markers = append(o.Markers, decodeMarker(pkt))
				quiet.Reset(8 * time.Millisecond)
			case <-quiet.C:
				break loop
			}
		}
	}
	o.Tables = w.s.Bess.Snapshot()
	if w.s.P4 != nil && o.Alive {
		o.P4 = w.s.P4Observe()
	}
	return o
}

func decodeMarker(pkt []byte) []uint64 {
	p := gopacket.NewPacket(pkt, layers.LayerTypeEthernet, gopacket.Default)
	var src, dst, teid, ty, sp, dp uint64
	if l := p.Layer(layers.LayerTypeIPv4); l != nil {
		ip := l.(*layers.IPv4)
		src, dst = uint64(sysh.U32(ip.SrcIP)), uint64(sysh.U32(ip.DstIP))
	}
	if l := p.Layer(layers.LayerTypeUDP); l != nil {
		u := l.(*layers.UDP)
		sp, dp = uint64(u.SrcPort), uint64(u.DstPort)
	}
	if l := p.Layer(layers.LayerTypeGTPv1U); l != nil {
		g := l.(*layers.GTPv1U)
		teid, ty = uint64(g.TEID), uint64(g.MessageType)
	}
	return []uint64{src, dst, teid, ty, sp, dp}
}

// assoc sets up association number a (a new peer address when it does not exist yet).
func (w *world) assoc(a int) bool {
	for len(w.peers) <= a {
		p, err := w.s.NewPeer(true)
		if err != nil {
			panic(err)
		}
		w.peers = append(w.peers, p)
		w.nodes = append(w.nodes, p.Addr)
	}
	p := w.peers[a]
	seq := w.seq(p)
	req := message.NewAssociationSetupRequest(seq, ie.NewNodeID(w.nodes[a], "", ""), ie.NewRecoveryTimeStamp(time.Unix(1700000000, 0)))
	replies, barrier := p.Exchange(sysh.Marshal(req), w.wait)
	o := w.observe(replies, barrier, seq, false)
	w.emit("assoc", o.Cause == 1, map[string]interface{}{"k": "assoc", "a": a, "node": w.nodes[a], "obs": o})
	return o.Alive
}

func (w *world) est(a int, node string, cp uint64, pdrs []sysh.PdrIE, fars []sysh.FarIE, qers []sysh.QerIE, class string) (*hsess, sysh.Obs) {
	p := w.peers[a]
	seq := w.seq(p)
	ies := []*ie.IE{ie.NewNodeID(node, "", ""), ie.NewFSEID(cp, p.IP, nil)}
	for _, x := range pdrs {
		ies = append(ies, x.Create())
	}
	for _, x := range fars {
		ies = append(ies, x.Create())
	}
	for _, x := range qers {
		ies = append(ies, x.Create())
	}
	req := message.NewSessionEstablishmentRequest(0, 0, 0, seq, 0, ies...)
	replies, barrier := p.Exchange(sysh.Marshal(req), w.wait)
	o := w.observe(replies, barrier, seq, false)
	w.emit("est/"+class, o.Cause == 1, map[string]interface{}{"k": "est", "a": a, "node": node, "cp": cp, "cpip": sysh.U32(p.IP),
		"n4": sysh.U32(net.ParseIP(w.s.N4)), "n4s": w.s.N4, "pdrs": nz(pdrs), "fars": nzf(fars), "qers": nzq(qers), "obs": o})
	if o.Cause == 1 {
		// what the UP chose becomes part of the control plane's view of the rules (later updates repeat it)
		pdrs = append([]sysh.PdrIE{}, pdrs...)
		for _, cr := range o.Created {
			id := cr[0].(uint16)
			for i := range pdrs {
				if pdrs[i].ID != id {
					continue
				}
				if cr[1].(string) == "t" {
					pdrs[i].Teid = u32p3(0, cr[2].(uint32), cr[3].(uint32))
				}
			}
			if cr[1].(string) == "u" {
				for i := range pdrs {
					if pdrs[i].UE != nil && pdrs[i].UE[0]&2 == 0 {
						pdrs[i].UE = u32p2(2, cr[2].(uint32))
					}
				}
			}
		}
		h := &hsess{a: a, up: o.Up, cp: cp, pdrs: pdrs, fars: fars, qers: qers}
		w.sessions = append(w.sessions, h)
		return h, o
	}
	return nil, o
}

func nz(x []sysh.PdrIE) []sysh.PdrIE {
	if x == nil {
		return []sysh.PdrIE{}
	}
	return x
}
func nzf(x []sysh.FarIE) []sysh.FarIE {
	if x == nil {
		return []sysh.FarIE{}
	}
	return x
}
func nzq(x []sysh.QerIE) []sysh.QerIE {
	if x == nil {
		return []sysh.QerIE{}
	}
	return x
}
func nzu(x []uint32) []uint32 {
	if x == nil {
		return []uint32{}
	}
	return x
}

type modReq struct {
	cpf        *[2]uint64
	cp, up     []sysh.PdrIE
	cf, uf     []sysh.FarIE
	cq, uq     []sysh.QerIE
	rp, rf, rq []uint32
}

func (w *world) mod(a int, seid uint64, m modReq, class string) sysh.Obs {
	p := w.peers[a]
	seq := w.seq(p)
	var ies []*ie.IE
	if m.cpf != nil {
		ies = append(ies, ie.NewFSEID(m.cpf[0], sysh.IP4(uint32(m.cpf[1])), nil))
	}
	for _, x := range m.cp {
		ies = append(ies, x.Create())
	}
	for _, x := range m.cf {
		ies = append(ies, x.Create())
	}
	for _, x := range m.cq {
		ies = append(ies, x.Create())
	}
	for _, x := range m.up {
		ies = append(ies, x.Update())
	}
	for _, x := range m.uf {
		ies = append(ies, x.Update())
	}
	for _, x := range m.uq {
		ies = append(ies, x.Update())
	}
	for _, id := range m.rp {
		ies = append(ies, ie.NewRemovePDR(ie.NewPDRID(uint16(id))))
	}
	for _, id := range m.rf {
		ies = append(ies, ie.NewRemoveFAR(ie.NewFARID(id)))
	}
	for _, id := range m.rq {
		ies = append(ies, ie.NewRemoveQER(ie.NewQERID(id)))
	}
	req := message.NewSessionModificationRequest(0, 0, seid, seq, 0, ies...)
	replies, barrier := p.Exchange(sysh.Marshal(req), w.wait)
	o := w.observe(replies, barrier, seq, w.s.Opts.EndMarker)
	ev := map[string]interface{}{"k": "mod", "a": a, "seid": seid, "cp": nz(m.cp), "cf": nzf(m.cf), "cq": nzq(m.cq), "up": nz(m.up), "uf": nzf(m.uf), "uq": nzq(m.uq),
		"rp": nzu(m.rp), "rf": nzu(m.rf), "rq": nzu(m.rq), "obs": o}
	if m.cpf != nil {
		ev["cpf"] = m.cpf
	}
	w.emit("mod/"+class, o.Cause == 1, ev)
	return o
}

func (w *world) del(a int, seid uint64, class string) sysh.Obs {
	p := w.peers[a]
	seq := w.seq(p)
	req := message.NewSessionDeletionRequest(0, 0, seid, seq, 0)
	replies, barrier := p.Exchange(sysh.Marshal(req), w.wait)
	o := w.observe(replies, barrier, seq, false)
	w.emit("del/"+class, o.Cause == 1, map[string]interface{}{"k": "del", "a": a, "seid": seid, "obs": o})
	return o
}

func (w *world) release(a int) sysh.Obs {
	p := w.peers[a]
	seq := w.seq(p)
	req := message.NewAssociationReleaseRequest(seq, ie.NewNodeID(w.nodes[a], "", ""))
	replies, barrier := p.Exchange(sysh.Marshal(req), w.wait)
	// Shutdown runs after the response was sent (deferred): wait until the datapath is quiet
	n := -1
	for i := 0; i < 100; i++ {
		time.Sleep(3 * time.Millisecond)
		if c := w.dpCount(); c == n {
			break
		} else {
			n = c
		}
	}
	o := w.observe(replies, barrier, seq, false)
	w.emit("release", true, map[string]interface{}{"k": "release", "a": a, "obs": o})
	p.Fresh = true // the association is gone: the next datagram sets up a new one
	for _, s := range w.sessions {
		if s.a == a {
			s.dead = true
		}
	}
	return o
}

type appPFD struct {
	ID  string   `json:"id"`
	Fds []string `json:"fds"`
}

// pfd provisions the application table; bad injects an element without flow description (the request must be rejected).
func (w *world) pfd(a int, apps []appPFD, bad bool) sysh.Obs {
	p := w.peers[a]
	seq := w.seq(p)
	if len(apps) == 0 {
		bad = false // there is no PFD context to spoil: the request without any Application ID's PFDs IE is well-formed
	}
	var ies []*ie.IE
	for i, ap := range apps {
		var ctx []*ie.IE
		for _, fd := range ap.Fds {
			ctx = append(ctx, ie.NewPFDContents(fd, "", "", "", "", nil, nil, nil))
		}
		if bad && i == len(apps)-1 {
			ctx = append(ctx, ie.NewPFDContents("", "", "example.org", "", "", nil, nil, nil))
		}
		ies = append(ies, ie.NewApplicationIDsPFDs(ie.NewApplicationID(ap.ID), ie.NewPFDContext(ctx...)))
	}
	req := message.NewPFDManagementRequest(seq, ies...)
	replies, barrier := p.Exchange(sysh.Marshal(req), w.wait)
	o := w.observe(replies, barrier, seq, false)
	w.emit("pfd", o.Cause == 1, map[string]interface{}{"k": "pfd", "a": a, "apps": apps, "bad": bad, "obs": o})
	return o
}

// hb sends a Heartbeat Request on association a (creating the peer when needed).
func (w *world) hb(a int) sysh.Obs {
	for len(w.peers) <= a {
		p, err := w.s.NewPeer(true)
		if err != nil {
			panic(err)
		}
		w.peers = append(w.peers, p)
		w.nodes = append(w.nodes, p.Addr)
	}
	p := w.peers[a]
	seq := w.seq(p)
	req := message.NewHeartbeatRequest(seq, ie.NewRecoveryTimeStamp(time.Unix(1700000000, 0)), nil)
	replies, barrier := p.Exchange(sysh.Marshal(req), w.wait)
	o := w.observe(replies, barrier, seq, false)
	w.emit("hb", true, map[string]interface{}{"k": "hb", "a": a, "obs": o})
	return o
}

// resp sends a response-type message; it must not be answered.
func (w *world) resp(a int, m message.Message) sysh.Obs {
	p := w.peers[a]
	replies, barrier := p.Exchange(sysh.Marshal(m), w.wait)
	o := w.observe(replies, barrier, m.Sequence(), false)
	w.emit(fmt.Sprintf("resp/%d", m.MessageType()), true, map[string]interface{}{"k": "resp", "a": a, "type": m.MessageType(), "obs": o})
	return o
}

// dpCount is the number of commands / Write RPCs the datapath servers have received (to wait until they are quiet).
func (w *world) dpCount() int {
	n := w.s.Bess.Count()
	if w.s.P4 != nil {
		n += w.s.P4.Count()
	}
	return n
}

func (w *world) close() {
	for _, p := range w.peers {
		p.Close()
	}
	w.s.Close()
}

func u8p(v uint8) *uint8    { return &v }
func strp(s string) *string { return &s }

var _ = fmt.Sprint
