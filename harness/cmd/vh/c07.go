package main

import (
	"verifharness/internal/sysh"
	"fmt"
	"sort"
	"strings"
	"sync"

	"github.com/omec-project/upf-epc/pfcpiface"
)

func init() { props["C07"] = c07 }

const teidM = 4294967295 // maxValue: offsets range over [0, M-1], ids over [1, M]

func c07Teid(c *ctx, class string, offset uint32, used []uint32, ops []string, args []uint32) {
	g := pfcpiface.NewFTEIDGenerator()
	g.VerifSetState(offset, used)
	var sb strings.Builder
	fmt.Fprintf(&sb, "teid %d %d", offset, len(used))
	for _, u := range used {
		fmt.Fprintf(&sb, " %d", u)
	}
	sb.WriteString(" :")
	nAlloc := 0
	for i, op := range ops {
		switch op {
		case "A":
			id, err := g.Allocate()
			if err != nil {
				sb.WriteString(" A -1")
			} else {
				fmt.Fprintf(&sb, " A %d", id)
				nAlloc++
			}
		case "F":
			g.FreeID(args[i])
			fmt.Fprintf(&sb, " F %d", args[i])
		case "Q":
			fmt.Fprintf(&sb, " Q %d %d", args[i], b01(g.IsAllocated(args[i])))
		}
	}
	fmt.Fprintf(&sb, " : %d", g.VerifOffset())
	c.t.Case(class, nAlloc > 0, "%s", sb.String())
}

func c07(c *ctx) {
	M := uint32(teidM)
	cursors := []uint32{0, 1, 2, M - 3, M - 2, M - 1}
	// used-set shapes relative to the cursor: empty, block ahead of the cursor (forces a scan), block across the wrap
	for _, cur := range cursors {
		for shape := 0; shape < 5; shape++ {
			var used []uint32
			switch shape {
			case 1:
				for k := uint32(0); k < 5; k++ {
					used = append(used, (cur+k)%M)
				}
			case 2:
				for k := uint32(0); k < 40; k++ {
					used = append(used, uint32((uint64(cur)+uint64(k))%uint64(M)))
				}
			case 3:
				used = []uint32{M - 1, 0, 1, M - 2}
			case 4:
				for k := uint32(0); k < 9; k += 2 {
					used = append(used, uint32((uint64(cur)+uint64(k))%uint64(M)))
				}
			}
			// allocate 8, free some, query, allocate again
			ops := []string{"A", "A", "A", "Q", "Q", "Q", "A", "A", "A", "A", "A"}
			args := make([]uint32, len(ops))
			args[3], args[4], args[5] = 0, cur+1, cur+2
			c07Teid(c, fmt.Sprintf("teid/cursor/%d", shape), cur, used, ops, args)
		}
	}
	// random op sequences near the wrap-around and elsewhere; frees and queries target ids seen so far
	for i := 0; i < c.pick(400, 20000); i++ {
		var cur uint32
		switch c.rng.Intn(3) {
		case 0:
			cur = M - 1 - uint32(c.rng.Intn(6))
		case 1:
			cur = uint32(c.rng.Intn(6))
		default:
			cur = c.rng.Uint32() % M
		}
		var used []uint32
		for k := 0; k < c.rng.Intn(12); k++ {
			used = append(used, uint32((uint64(cur)+uint64(c.rng.Intn(16)))%uint64(M)))
		}
		L := 5 + c.rng.Intn(40)
		ops := make([]string, L)
		args := make([]uint32, L)
		// simulate ids to aim frees: ids near cursor+1..
		for j := 0; j < L; j++ {
			switch r := c.rng.Intn(10); {
			case r < 5:
				ops[j] = "A"
			case r < 8:
				ops[j] = "F"
				args[j] = uint32((uint64(cur) + uint64(c.rng.Intn(24))) % (uint64(M) + 1))
			default:
				ops[j] = "Q"
				args[j] = uint32((uint64(cur) + uint64(c.rng.Intn(24))) % (uint64(M) + 1))
			}
		}
		c07Teid(c, "teid/random", cur, used, ops, args)
	}
	c07conc(c)
	// SEIDs: scripted random sources
	type sc struct {
		name  string
		draws []uint64
		live  []uint64
		n     int
	}
	scs := []sc{
		{"constant", []uint64{42}, nil, 3},
		{"two-cycle", []uint64{7, 9}, nil, 4},
		{"zero", []uint64{0}, nil, 2},
		{"zero-then-value", []uint64{0, 0, 5}, nil, 3},
		{"live-then-fresh", []uint64{11, 12, 13}, []uint64{11, 12}, 3},
		{"all-live", []uint64{11, 12}, []uint64{11, 12}, 2},
		{"max", []uint64{^uint64(0), 1}, nil, 3},
	}
	// a source that collides exactly 99 / 100 times before a fresh value
	for _, k := range []int{98, 99, 100, 101} {
		d := make([]uint64, k+1)
		for i := range d {
			d[i] = 77
		}
		d[k] = 78
		scs = append(scs, sc{fmt.Sprintf("collide-%d", k), d, []uint64{77}, 1})
	}
	for i := 0; i < c.pick(100, 3000); i++ {
		nd := 1 + c.rng.Intn(6)
		d := make([]uint64, nd)
		for j := range d {
			d[j] = uint64(c.rng.Intn(5))
		}
		var live []uint64
		for j := 0; j < c.rng.Intn(4); j++ {
			live = append(live, uint64(1+c.rng.Intn(4)))
		}
		scs = append(scs, sc{"random-small", d, live, 1 + c.rng.Intn(5)})
	}
	for _, s := range scs {
		seids, ok, consumed := pfcpiface.VerifNewSEIDs(s.draws, s.live, s.n)
		var sb strings.Builder
		sb.WriteString("seid")
		for _, d := range s.draws {
			fmt.Fprintf(&sb, " %d", d)
		}
		sb.WriteString(" |")
		for _, l := range s.live {
			fmt.Fprintf(&sb, " %d", l)
		}
		fmt.Fprintf(&sb, " | %d %d :", s.n, consumed)
		granted := 0
		for i := range seids {
			fmt.Fprintf(&sb, " %d %d", seids[i], b01(ok[i]))
			granted += b01(ok[i])
		}
		c.t.Case("seid/"+s.name, granted > 0, "%s", sb.String())
	}
	c07system(c)
}

// c07system: UP-chosen and CP-chosen TEIDs side by side on a running agent. A session whose F-TEID the control plane chose
// with the SAME number as a UP-chosen one (another N3 address) comes and goes: the UP-chosen TEID stays in use exactly
// as long as the session it was chosen for lives.
func c07system(c *ctx) {
	r := c.rng
	w, err := newWorld(c, sysh.Opts{ReadTimeout: 600})
	if err != nil {
		panic(err)
	}
	defer w.close()
	w.cfgLine()
	if !w.start() {
		return
	}
	w.assoc(0)
	w.assoc(1)
	for i := 0; i < c.pick(25, 400); i++ {
		pdrs, fars, qers := w.genSession(2) // CHOOSE F-TEID
		w.nextCP++
		a, oa := w.est(0, w.nodes[0], w.nextCP, pdrs, fars, qers, "c07-choose")
		w.stats("c07")
		if a == nil {
			continue
		}
		var chosen uint32
		for _, cr := range oa.Created {
			if cr[1].(string) == "t" {
				chosen = cr[2].(uint32)
			}
		}
		if r.Intn(3) == 0 {
			// a modification refused AFTER its Remove PDR step took the CHOOSE PDR out of the handler's copy: nothing is
			// committed, so the TEID stays in use
			var ids []uint32
			for _, p := range pdrs {
				ids = append(ids, uint32(p.ID))
			}
			w.mod(0, a.up, modReq{rp: ids, rq: []uint32{999}}, "c07-remove-choose-pdr-then-refused")
			w.stats("c07")
		}
		// another session (often of another association) whose control plane picked the same number, under another address
		p2, f2, q2 := w.genSession(0)
		p2[0].Teid = u32p3(0, chosen, n3IP+8+uint32(r.Intn(4)))
		w.nextCP++
		other := r.Intn(2)
		b, _ := w.est(other, w.nodes[other], w.nextCP, p2, f2, q2, "c07-cp-chosen-same-number")
		if b != nil {
			w.del(other, b.up, "c07")
		}
		w.stats("c07") // the UP-chosen TEID is still in use: its session lives
		if r.Intn(3) > 0 {
			w.del(0, a.up, "c07")
			w.stats("c07")
		}
	}
}

// c07conc: the TEID allocator under concurrent callers (also run by C11: it is shared by all associations).
func c07conc(c *ctx) {
	M := uint32(teidM)
	// concurrent allocation: ids must be pairwise distinct and non-zero
	for run := 0; run < c.pick(3, 40); run++ {
		g := pfcpiface.NewFTEIDGenerator()
		g.VerifSetState(M-50, nil)
		G, per := 32, 20
		res := make([]uint32, G*per)
		var wg sync.WaitGroup
		for k := 0; k < G; k++ {
			wg.Add(1)
			go func(k int) {
				defer wg.Done()
				for j := 0; j < per; j++ {
					id, err := g.Allocate()
					if err != nil {
						id = 0
					}
					res[k*per+j] = id
					if j%3 == 2 { // release and re-allocate under contention
						g.FreeID(id)
						id2, _ := g.Allocate()
						res[k*per+j] = id2
					}
				}
			}(k)
		}
		wg.Wait()
		sort.Slice(res, func(i, j int) bool { return res[i] < res[j] })
		var sb strings.Builder
		for _, r := range res {
			fmt.Fprintf(&sb, " %d", r)
		}
		c.t.Case("teid/concurrent", true, "tconc %d%s", len(res), sb.String())
	}
}
