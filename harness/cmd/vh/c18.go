package main

// C18 — configuration loading yields a validated configuration or an error.
//
// Trace kinds (sections are separated by " | "; strings are hex-encoded, "-" is the empty string):
//
//	load <class> | <12 field values> <peers> | <predicate table> | <result>
//	     a document generated from the Conf schema, written to a file and loaded with the real LoadConfigFile.
//	     field values, in the order mode enable_p4rt access_ip ue_ip_pool enable_ue_ip_alloc resp_timeout read_timeout
//	     max_req_retries enable_hbTimer heart_beat_interval log_level default_tc:
//	       A absent | N null | i<int> integer literal | s<hex> string | b0/b1 bool | O any other JSON value
//	     peers: A | N | O | L <k> <k element values>
//	     predicate table: <n> then n x (<hex string> <dur><cidr><ip> <level|x>): Go's verdicts of time.ParseDuration,
//	       net.ParseCIDR, net.ParseIP and zapcore.Level.UnmarshalText on every string the model may ask about
//	     result: err <syntax|type|other> <hex message>
//	           | ok <mode> <p4> <access> <pool> <alloc> <resp> <read> <retr> <hb> <hbi> <lvl> <tc> <k> <k peers>
//	           | panic <hex message>
//	sample <hex path> <upf|other> | <fields or "nodoc"> | <predicate table> | <result>      a shipped *.jsonc file
//	ins <desc> | <result of the comment-free document> | <result with comments inserted>
//	rc P <pieces: t<hex> text, l<hex> line-comment body, b<hex> block-comment body> | <hex removeComments(render pieces)>
//	rc R <hex input> | <hex removeComments(input)>
//	fuzz <class> | <predicate table> | <result>           arbitrary bytes, mutated documents, markers inside strings
//	durstr <ns> <hex time.Duration(ns).String()>           ties the model's Duration.String
//	selfcheck-fail <hex document>                          the harness's own field extractor disagrees with its generator
//
// The harness records; the Lean acceptor (lean/Check/C18.lean) decides.

import (
	"encoding/json"
	"errors"
	"fmt"
	"net"
	"os"
	"path/filepath"
	"reflect"
	"regexp"
	"sort"
	"strings"
	"time"

	"github.com/omec-project/upf-epc/pfcpiface"
	"go.uber.org/zap/zapcore"
)

func init() { props["C18"] = c18 }

// ---------------------------------------------------------------- JSON values per field

type jv struct {
	k   byte     // 'A' absent, 'N' null, 'i' integer literal, 's' string, 'b' bool, 'O' other
	txt string   // 'i': decimal text, 's': the string
	b   bool     // 'b'
	raw []string // 'O': JSON tokens
}

func jA() jv            { return jv{k: 'A'} }
func jN() jv            { return jv{k: 'N'} }
func jI(s string) jv    { return jv{k: 'i', txt: s} }
func jS(s string) jv    { return jv{k: 's', txt: s} }
func jB(b bool) jv      { return jv{k: 'b', b: b} }
func jO(t ...string) jv { return jv{k: 'O', raw: t} }

func (v jv) tok() string {
	switch v.k {
	case 'i':
		return "i" + v.txt
	case 's':
		return "s" + hexs(v.txt)
	case 'b':
		return fmt.Sprintf("b%d", b01(v.b))
	}
	return string(v.k)
}

func (v jv) eq(w jv) bool {
	if v.k != w.k {
		return false
	}
	switch v.k {
	case 'i', 's':
		return v.txt == w.txt
	case 'b':
		return v.b == w.b
	}
	return true
}

func jstr(s string) string {
	b, err := json.Marshal(s)
	if err != nil {
		panic(err)
	}
	return string(b)
}

// JSON tokens of a value (never called for 'A')
func (v jv) tokens() []string {
	switch v.k {
	case 'N':
		return []string{"null"}
	case 'i':
		return []string{v.txt}
	case 's':
		return []string{jstr(v.txt)}
	case 'b':
		if v.b {
			return []string{"true"}
		}
		return []string{"false"}
	case 'O':
		return v.raw
	}
	panic("tokens of absent value")
}

const (
	fMode = iota
	fP4
	fAccess
	fPool
	fAlloc
	fResp
	fRead
	fRetr
	fHB
	fHBI
	fLvl
	fTC
	nFields
)

var c18FieldNames = [nFields]string{"mode", "p4", "access", "pool", "alloc", "resp", "read", "retr", "hb", "hbi", "lvl", "tc"}

type c18spec struct {
	f      [nFields]jv
	peersK byte // 'A', 'N', 'L', 'O'
	peers  []jv
	peersO []string
}

func (s *c18spec) fieldToks() string {
	var sb strings.Builder
	for i := 0; i < nFields; i++ {
		sb.WriteString(s.f[i].tok())
		sb.WriteByte(' ')
	}
	switch s.peersK {
	case 'L':
		fmt.Fprintf(&sb, "L %d", len(s.peers))
		for _, p := range s.peers {
			sb.WriteByte(' ')
			sb.WriteString(p.tok())
		}
	default:
		sb.WriteByte(s.peersK)
	}
	return sb.String()
}

func (s *c18spec) equal(o *c18spec) bool {
	for i := 0; i < nFields; i++ {
		if !s.f[i].eq(o.f[i]) {
			return false
		}
	}
	if s.peersK != o.peersK || len(s.peers) != len(o.peers) {
		return false
	}
	for i := range s.peers {
		if !s.peers[i].eq(o.peers[i]) {
			return false
		}
	}
	return true
}

// every string value of the document (the model may ask a predicate about each)
func (s *c18spec) strings() []string {
	var out []string
	for i := 0; i < nFields; i++ {
		if s.f[i].k == 's' {
			out = append(out, s.f[i].txt)
		}
	}
	for _, p := range s.peers {
		if p.k == 's' {
			out = append(out, p.txt)
		}
	}
	return out
}

// ---------------------------------------------------------------- value classes per field

var c18Others = []jv{jO("{", "}"), jO("[", "]"), jO("1.5"), jO("1e2"), jO("{", `"a"`, ":", "1", "}"), jO("[", "1", ",", `"x"`, "]"), jO("-0")}

func c18Classes() (vals [nFields][]jv, peers []c18spec) {
	str := func(ss ...string) []jv {
		var o []jv
		for _, s := range ss {
			o = append(o, jS(s))
		}
		return o
	}
	num := func(ss ...string) []jv {
		var o []jv
		for _, s := range ss {
			o = append(o, jI(s))
		}
		return o
	}
	cat := func(ls ...[]jv) []jv {
		var o []jv
		for _, l := range ls {
			o = append(o, l...)
		}
		return o
	}
	an := []jv{jA(), jN()}
	bools := cat(an, []jv{jB(true), jB(false), jS("true"), jI("1"), jI("0")}, c18Others[:2])
	cidrs := cat(an, str("198.18.0.1/32", "10.0.0.1/24", "10.250.0.0/16", "10.250.0.0/30", "10.250.0.0/32", "0.0.0.0/0", "255.255.255.255/32",
		"2001:db8::1/64", "::/0", "fd00::/128", "::ffff:10.0.0.1/120",
		"", "10.0.0.1", "10.0.0.1/33", "10.0.0.256/24", "010.0.0.1/24", "10.0.0.1/-1", "10.0.0.1/24 ", " 10.0.0.1/24", "/24", "abc", "10.0.0.1/ 24",
		"::1/129", "10.0.0/24", "10.0.0.1/024", "10.0.0.1/", "10.0.0.1/24/24", "10.0.0.1/2 4"), []jv{jI("10"), jB(true)}, c18Others[:3])
	durs := cat(an, str("", "2s", "1s", "5s", "500ms", "1.5s", "1h2m3s", "0", "0s", "-1s", "+3s", "1us", "1µs", "1ns", "9223372036s", "2540400h",
		"9223372037s", "2", "s", "abc", "1 s", "2sec", "1d", " ", "2S", ".5s", "1.s", "1e3s", "1.5", "-", "+", "3m ", "0x1s", "1s1", "١s"),
		[]jv{jI("2"), jI("0"), jB(false)}, c18Others[:4])
	vals[fMode] = cat(an, str("af_xdp", "af_packet", "cndp", "dpdk", "sim",
		"", "DPDK", "Dpdk", "dpdk ", " dpdk", "af-xdp", "afxdp", "xdp", "simulation", "dp dk", "sim\n", "dpdk\x00", "ｄｐｄｋ", "none", "up4", "af_xdp,dpdk"),
		[]jv{jI("1"), jB(true)}, c18Others[:3])
	vals[fP4] = bools
	vals[fAccess] = cidrs
	vals[fPool] = cidrs
	vals[fAlloc] = bools
	vals[fResp] = durs
	vals[fRead] = cat(an, num("0", "1", "15", "25", "4294967295", "4294967296", "-1", "18446744073709551616", "65536", "2147483648"),
		[]jv{jS("15"), jS(""), jB(true)}, c18Others)
	vals[fRetr] = cat(an, num("0", "1", "5", "255", "256", "-1", "128", "4294967296"), []jv{jS("5"), jB(false)}, c18Others)
	vals[fHB] = bools
	vals[fHBI] = durs
	vals[fLvl] = cat(an, str("info", "debug", "warn", "error", "DEBUG", "INFO", "fatal", "panic", "dpanic", "Warn", "ERROR", "",
		"WARNING", "trace", "0", "information", " info", "inf"), []jv{jI("0"), jI("-1"), jB(true)}, c18Others[:3])
	vals[fTC] = cat(an, num("0", "1", "2", "3", "4", "255", "256", "-1", "1000"), []jv{jS("3"), jB(true)}, c18Others)

	pl := func(v ...jv) c18spec { return c18spec{peersK: 'L', peers: v} }
	peers = []c18spec{
		{peersK: 'A'}, {peersK: 'N'}, pl(), pl(jS("10.0.0.1")), pl(jS("10.0.0.1"), jS("10.0.0.2")), pl(jS("::1")), pl(jS("2001:db8::2")),
		pl(jS("148.162.12.214")), pl(jS("::ffff:10.0.0.1")), pl(jS("0.0.0.0")), pl(jS("255.255.255.255")),
		pl(jS("upf.example.org")), pl(jS("10.0.0.1"), jS("")), pl(jS("10.0.0.1/24")), pl(jS(" 10.0.0.1")), pl(jS("10.0.0.1"), jN()),
		pl(jN()), pl(jI("5")), pl(jS("10.0.0.1"), jB(true)), pl(jS("10.0.0.256")), pl(jS("1.2.3")), pl(jS("010.0.0.1")), pl(jS("fe80::1%eth0")),
		pl(jS("10.0.0.1"), jS("10.0.0.2"), jS("bad"), jS("worse")), pl(jS("localhost")), pl(jS("10.0.0.1"), jO("[", "]")),
		{peersK: 'O', peersO: []string{`"10.0.0.1"`}}, {peersK: 'O', peersO: []string{"{", "}"}}, {peersK: 'O', peersO: []string{"7"}},
		{peersK: 'O', peersO: []string{"true"}},
	}
	return
}

func c18Base(p4 bool) c18spec {
	var s c18spec
	for i := range s.f {
		s.f[i] = jA()
	}
	s.peersK = 'A'
	if p4 {
		s.f[fP4] = jB(true)
		s.f[fAccess] = jS("198.18.0.1/32")
		s.f[fPool] = jS("10.250.0.0/16")
	} else {
		s.f[fMode] = jS("dpdk")
	}
	return s
}

// ---------------------------------------------------------------- rendering

type c18keys struct {
	f                  [nFields]string
	peers, cpi, p4rtci string
}

func c18Tag(t reflect.Type, field string) string {
	f, ok := t.FieldByName(field)
	if !ok {
		panic("C18 harness: struct field disappeared: " + t.Name() + "." + field)
	}
	tag := strings.Split(f.Tag.Get("json"), ",")[0]
	if tag == "" {
		panic("C18 harness: no json tag on " + t.Name() + "." + field)
	}
	return tag
}

func c18Keys() c18keys {
	var k c18keys
	ct := reflect.TypeOf(pfcpiface.Conf{})
	cp := reflect.TypeOf(pfcpiface.CPIfaceInfo{})
	p4 := reflect.TypeOf(pfcpiface.P4rtcInfo{})
	k.f[fMode] = c18Tag(ct, "Mode")
	k.f[fP4] = c18Tag(ct, "EnableP4rt")
	k.f[fAccess] = c18Tag(p4, "AccessIP")
	k.f[fPool] = c18Tag(cp, "UEIPPool")
	k.f[fAlloc] = c18Tag(cp, "EnableUeIPAlloc")
	k.f[fResp] = c18Tag(ct, "RespTimeout")
	k.f[fRead] = c18Tag(ct, "ReadTimeout")
	k.f[fRetr] = c18Tag(ct, "MaxReqRetries")
	k.f[fHB] = c18Tag(ct, "EnableHBTimer")
	k.f[fHBI] = c18Tag(ct, "HeartBeatInterval")
	k.f[fLvl] = c18Tag(ct, "LogLevel")
	k.f[fTC] = c18Tag(p4, "DefaultTC")
	k.peers = c18Tag(cp, "Peers")
	k.cpi = c18Tag(ct, "CPIface")
	k.p4rtci = c18Tag(ct, "P4rtcIface")
	return k
}

type member struct {
	key string
	val []string
}

func objTokens(ms []member) []string {
	out := []string{"{"}
	for i, m := range ms {
		if i > 0 {
			out = append(out, ",")
		}
		out = append(out, jstr(m.key), ":")
		out = append(out, m.val...)
	}
	return append(out, "}")
}

// a document: tokens and the separators around them (len(seps) == len(toks)+1)
type c18doc struct {
	toks []string
	seps []string
}

func (d *c18doc) text() string {
	var sb strings.Builder
	for i, t := range d.toks {
		sb.WriteString(d.seps[i])
		sb.WriteString(t)
	}
	sb.WriteString(d.seps[len(d.toks)])
	return sb.String()
}

func (d *c18doc) clone() *c18doc {
	return &c18doc{toks: append([]string{}, d.toks...), seps: append([]string{}, d.seps...)}
}

// noise: fields of the real schema the property does not speak about, always valid
func (c *ctx) c18Noise(level int) (top, cpi, p4 []member) {
	if level == 0 {
		return
	}
	r := c.rng
	if r.Intn(2) == 0 {
		top = append(top, member{"access", objTokens([]member{{"ifname", []string{`"ens803f2"`}}})})
		top = append(top, member{"core", objTokens([]member{{"ifname", []string{`"ens803f3"`}}})})
	}
	if r.Intn(2) == 0 {
		top = append(top, member{"workers", []string{"1"}}, member{"max_sessions", []string{"50000"}},
			member{"table_sizes", objTokens([]member{{"pdrLookup", []string{"50000"}}, {"farLookup", []string{"150000"}}})})
	}
	if r.Intn(2) == 0 {
		top = append(top, member{"measure_upf", []string{"true"}}, member{"measure_flow", []string{"false"}},
			member{"enable_notify_bess", []string{"true"}}, member{"notify_sockaddr", []string{`"/pod-share/notifycp"`}},
			member{"endmarker_sockaddr", []string{`"/tmp/pfcpport"`}}, member{"enable_end_marker", []string{"false"}})
	}
	if r.Intn(3) == 0 {
		top = append(top, member{"sim", objTokens([]member{{"max_sessions", []string{"50000"}}, {"start_ue_ip", []string{`"16.0.0.1"`}},
			{"start_enb_ip", []string{`"11.1.1.129"`}}, {"n6_app_ip", []string{`"6.6.6.6"`}}, {"start_n3_teid", []string{`"0x30000000"`}},
			{"uplink_mbr", []string{"500000"}}})})
	}
	if r.Intn(3) == 0 {
		top = append(top, member{"qci_qos_config", append(append([]string{"["}, objTokens([]member{{"qci", []string{"0"}}, {"cbs", []string{"50000"}},
			{"ebs", []string{"50000"}}, {"pbs", []string{"50000"}}, {"burst_duration_ms", []string{"10"}}, {"priority", []string{"7"}}})...), "]")},
			member{"slice_rate_limit_config", objTokens([]member{{"n6_bps", []string{"500000000"}}, {"n3_burst_bytes", []string{"625000"}}})})
	}
	if r.Intn(3) == 0 {
		top = append(top, member{"conn_timeout", []string{"1000"}}, member{"n4_addr", []string{`"0.0.0.0"`}},
			member{"enable_gtpu_path_monitoring", []string{"false"}}, member{"gtppsc", []string{"true"}}, member{"unknown_key", []string{"null"}})
	}
	if r.Intn(2) == 0 {
		cpi = append(cpi, member{"dnn", []string{`"internet"`}}, member{"hostname", []string{`"upf"`}}, member{"http_port", []string{`"8080"`}})
	}
	if r.Intn(4) == 0 {
		cpi = append(cpi, member{"use_fqdn", []string{"true"}})
	}
	if r.Intn(2) == 0 {
		p4 = append(p4, member{"p4rtc_server", []string{`"onos"`}}, member{"p4rtc_port", []string{`"51001"`}})
	}
	if r.Intn(3) == 0 {
		p4 = append(p4, member{"slice_id", []string{"0"}}, member{"clear_state_on_restart", []string{"false"}},
			member{"qfi_tc_mapping", objTokens([]member{{"1", []string{"2"}}, {"9", []string{"3"}}})})
	}
	return
}

func (c *ctx) c18VaryKey(k string) string {
	// encoding/json matches keys case-insensitively when there is no exact match
	if c.rng.Intn(40) != 0 {
		return k
	}
	switch c.rng.Intn(3) {
	case 0:
		return strings.ToUpper(k)
	case 1:
		return strings.ToUpper(k[:1]) + k[1:]
	}
	b := []byte(k)
	i := c.rng.Intn(len(b))
	b[i] = strings.ToUpper(string(b[i]))[0]
	return string(b)
}

// layout: 0 pretty, 1 compact, 2 one line with spaces, 3 random whitespace
func (c *ctx) c18Layout(toks []string, layout int) *c18doc {
	d := &c18doc{toks: toks, seps: make([]string, len(toks)+1)}
	ws := []string{"", " ", "\n", "\t", "\r\n", "  \n  ", "\n\n"}
	depth := 0
	for i := range d.seps {
		switch layout {
		case 1:
			d.seps[i] = ""
		case 2:
			if i > 0 {
				d.seps[i] = " "
			}
		case 3:
			d.seps[i] = ws[c.rng.Intn(len(ws))]
		default:
			if i == 0 {
				continue
			}
			prev := toks[i-1]
			if prev == "{" || prev == "[" {
				depth++
			}
			if i < len(toks) && (toks[i] == "}" || toks[i] == "]") {
				depth--
				if prev == "{" || prev == "[" {
					continue
				}
				d.seps[i] = "\n" + strings.Repeat("    ", depth)
				continue
			}
			switch prev {
			case "{", "[", ",":
				d.seps[i] = "\n" + strings.Repeat("    ", depth)
			case ":":
				d.seps[i] = " "
			}
			if i == len(toks) {
				d.seps[i] = "\n"
			}
		}
	}
	return d
}

func (c *ctx) c18Tokens(s *c18spec, k *c18keys, noise int, shuffle bool) []string {
	top, cpi, p4 := c.c18Noise(noise)
	add := func(dst *[]member, i int) {
		if s.f[i].k != 'A' {
			*dst = append(*dst, member{c.c18VaryKey(k.f[i]), s.f[i].tokens()})
		}
	}
	for _, i := range []int{fMode, fP4, fResp, fRead, fRetr, fHB, fHBI, fLvl} {
		add(&top, i)
	}
	add(&cpi, fAlloc)
	add(&cpi, fPool)
	switch s.peersK {
	case 'N':
		cpi = append(cpi, member{k.peers, []string{"null"}})
	case 'O':
		cpi = append(cpi, member{k.peers, s.peersO})
	case 'L':
		v := []string{"["}
		for i, p := range s.peers {
			if i > 0 {
				v = append(v, ",")
			}
			v = append(v, p.tokens()...)
		}
		cpi = append(cpi, member{k.peers, append(v, "]")})
	}
	add(&p4, fAccess)
	add(&p4, fTC)
	sh := func(m []member) {
		if shuffle {
			c.rng.Shuffle(len(m), func(i, j int) { m[i], m[j] = m[j], m[i] })
		}
	}
	sh(cpi)
	sh(p4)
	if len(cpi) > 0 || c.rng.Intn(3) == 0 {
		top = append(top, member{c.c18VaryKey(k.cpi), objTokens(cpi)})
	} else if c.rng.Intn(4) == 0 {
		top = append(top, member{k.cpi, []string{"null"}})
	}
	if len(p4) > 0 || c.rng.Intn(3) == 0 {
		top = append(top, member{c.c18VaryKey(k.p4rtci), objTokens(p4)})
	} else if c.rng.Intn(4) == 0 {
		top = append(top, member{k.p4rtci, []string{"null"}})
	}
	sh(top)
	return objTokens(top)
}

// ---------------------------------------------------------------- running the loader

type c18run struct {
	dir  string
	n    int
	keys c18keys
}

type c18result struct {
	toks    string   // result tokens
	strs    []string // strings of a returned configuration
	ok      bool
	syntax  bool
	panicky bool
}

func c18ResultOf(conf pfcpiface.Conf, err error, pan interface{}) c18result {
	if pan != nil {
		return c18result{toks: "panic " + hexs(fmt.Sprint(pan)), panicky: true}
	}
	if err != nil {
		class := "other"
		var se *json.SyntaxError
		var te *json.UnmarshalTypeError
		switch {
		case errors.As(err, &se):
			class = "syntax"
		case errors.As(err, &te):
			class = "type"
		}
		return c18result{toks: "err " + class + " " + hexs(err.Error()), syntax: class == "syntax"}
	}
	var sb strings.Builder
	fmt.Fprintf(&sb, "ok %s %d %s %s %d %s %d %d %d %s %d %d %d", hexs(conf.Mode), b01(conf.EnableP4rt), hexs(conf.P4rtcIface.AccessIP),
		hexs(conf.CPIface.UEIPPool), b01(conf.CPIface.EnableUeIPAlloc), hexs(conf.RespTimeout), conf.ReadTimeout, conf.MaxReqRetries,
		b01(conf.EnableHBTimer), hexs(conf.HeartBeatInterval), int(conf.LogLevel), conf.P4rtcIface.DefaultTC, len(conf.CPIface.Peers))
	strs := []string{conf.Mode, conf.P4rtcIface.AccessIP, conf.CPIface.UEIPPool, conf.RespTimeout, conf.HeartBeatInterval}
	for _, p := range conf.CPIface.Peers {
		sb.WriteByte(' ')
		sb.WriteString(hexs(p))
		strs = append(strs, p)
	}
	return c18result{toks: sb.String(), strs: strs, ok: true}
}

func c18LoadPath(path string) (res c18result) {
	defer func() {
		if p := recover(); p != nil {
			res = c18ResultOf(pfcpiface.Conf{}, nil, p)
		}
	}()
	conf, err := pfcpiface.LoadConfigFile(path)
	return c18ResultOf(conf, err, nil)
}

func (r *c18run) load(text string) c18result {
	r.n++
	path := filepath.Join(r.dir, "doc.jsonc")
	if err := os.WriteFile(path, []byte(text), 0o644); err != nil {
		panic(err)
	}
	return c18LoadPath(path)
}

// Go's verdicts for the model's parameters on every string the model may ask about
func c18Preds(strs ...[]string) string {
	seen := map[string]bool{}
	var all []string
	for _, l := range strs {
		for _, s := range l {
			if !seen[s] {
				seen[s] = true
				all = append(all, s)
			}
		}
	}
	var sb strings.Builder
	fmt.Fprintf(&sb, "%d", len(all))
	for _, s := range all {
		_, derr := time.ParseDuration(s)
		_, _, cerr := net.ParseCIDR(s)
		ip := net.ParseIP(s)
		var l zapcore.Level
		lvl := "x"
		if err := l.UnmarshalText([]byte(s)); err == nil {
			lvl = fmt.Sprint(int(l))
		}
		fmt.Fprintf(&sb, " %s %d%d%d %s", hexs(s), b01(derr == nil), b01(cerr == nil), b01(ip != nil), lvl)
	}
	return sb.String()
}

// the documented default strings (the model asks about them when a field is empty)
var c18Documented = []string{"", "2s", "5s"}

func (c *ctx) c18LoadCase(r *c18run, class string, s *c18spec, text string) c18result {
	res := r.load(text)
	c.t.Case("load/"+class+"/"+c18Outcome(res), !res.syntax, "load %s | %s | %s | %s", class, s.fieldToks(),
		c18Preds(s.strings(), c18Documented, res.strs), res.toks)
	return res
}

func c18Outcome(res c18result) string {
	switch {
	case res.panicky:
		return "panic"
	case res.ok:
		return "ok"
	case res.syntax:
		return "syntax-error"
	}
	return "refused"
}

// ---------------------------------------------------------------- the harness's own field extractor (samples, self-check)

type jnode struct {
	kind  byte // 'o' object, 'a' array, 's' string, 'n' number, 'b' bool, 'z' null
	s     string
	b     bool
	keys  []string
	kids  []jnode
	elems []jnode
}

func c18ParseTree(dec *json.Decoder) (jnode, error) {
	t, err := dec.Token()
	if err != nil {
		return jnode{}, err
	}
	switch x := t.(type) {
	case json.Delim:
		switch x {
		case '{':
			n := jnode{kind: 'o'}
			for dec.More() {
				kt, err := dec.Token()
				if err != nil {
					return n, err
				}
				v, err := c18ParseTree(dec)
				if err != nil {
					return n, err
				}
				n.keys = append(n.keys, kt.(string))
				n.kids = append(n.kids, v)
			}
			_, err := dec.Token()
			return n, err
		case '[':
			n := jnode{kind: 'a'}
			for dec.More() {
				v, err := c18ParseTree(dec)
				if err != nil {
					return n, err
				}
				n.elems = append(n.elems, v)
			}
			_, err := dec.Token()
			return n, err
		}
	case string:
		return jnode{kind: 's', s: x}, nil
	case json.Number:
		return jnode{kind: 'n', s: string(x)}, nil
	case bool:
		return jnode{kind: 'b', b: x}, nil
	case nil:
		return jnode{kind: 'z'}, nil
	}
	return jnode{}, fmt.Errorf("unexpected token %v", t)
}

var c18IntLit = regexp.MustCompile(`^(0|-?[1-9][0-9]*)$`)

func (n jnode) jv() jv {
	switch n.kind {
	case 's':
		return jS(n.s)
	case 'n':
		if c18IntLit.MatchString(n.s) {
			return jI(n.s)
		}
		return jO()
	case 'b':
		return jB(n.b)
	case 'z':
		return jN()
	}
	return jO()
}

// member of an object the way encoding/json finds a struct field: exact key, else case-insensitive; refuses duplicates
func (n jnode) member(key string) (jnode, bool, error) {
	idx := -1
	for i, k := range n.keys {
		if k == key || strings.EqualFold(k, key) {
			if idx >= 0 {
				return jnode{}, false, fmt.Errorf("duplicate key %q", key)
			}
			idx = i
		}
	}
	if idx < 0 {
		return jnode{}, false, nil
	}
	return n.kids[idx], true, nil
}

// c18Extract: the values json.Unmarshal will see for the model's fields in a (comment-free) document; error when the
// document is not of a shape the extractor understands (not an object, nested interface values of the wrong kind, duplicates).
func c18Extract(text string, k *c18keys) (*c18spec, error) {
	dec := json.NewDecoder(strings.NewReader(text))
	dec.UseNumber()
	root, err := c18ParseTree(dec)
	if err != nil {
		return nil, err
	}
	if dec.More() {
		return nil, fmt.Errorf("trailing data")
	}
	if root.kind != 'o' {
		return nil, fmt.Errorf("not an object")
	}
	s := c18Base(false)
	s.f[fMode] = jA()
	get := func(obj jnode, present bool, i int) error {
		if !present {
			return nil
		}
		v, ok, err := obj.member(k.f[i])
		if err != nil {
			return err
		}
		if ok {
			s.f[i] = v.jv()
		}
		return nil
	}
	sub := func(key string) (jnode, bool, error) {
		v, ok, err := root.member(key)
		if err != nil || !ok {
			return jnode{}, false, err
		}
		switch v.kind {
		case 'o':
			return v, true, nil
		case 'z':
			return jnode{}, false, nil
		}
		return jnode{}, false, fmt.Errorf("%s is not an object", key)
	}
	for _, i := range []int{fMode, fP4, fResp, fRead, fRetr, fHB, fHBI, fLvl} {
		if err := get(root, true, i); err != nil {
			return nil, err
		}
	}
	cpi, hasCpi, err := sub(k.cpi)
	if err != nil {
		return nil, err
	}
	p4, hasP4, err := sub(k.p4rtci)
	if err != nil {
		return nil, err
	}
	for _, i := range []int{fAlloc, fPool} {
		if err := get(cpi, hasCpi, i); err != nil {
			return nil, err
		}
	}
	for _, i := range []int{fAccess, fTC} {
		if err := get(p4, hasP4, i); err != nil {
			return nil, err
		}
	}
	if hasCpi {
		v, ok, err := cpi.member(k.peers)
		if err != nil {
			return nil, err
		}
		if ok {
			switch v.kind {
			case 'z':
				s.peersK = 'N'
			case 'a':
				s.peersK = 'L'
				for _, e := range v.elems {
					s.peers = append(s.peers, e.jv())
				}
			default:
				s.peersK = 'O'
			}
		}
	}
	return &s, nil
}

// ---------------------------------------------------------------- comments

var c18LineBodies = []string{"", " comment", " \"mode\": \"sim\",", " a /* b */ c", " */ x", " /* open", "// more // slashes", " \"x\": 1 }", " tab\there\r",
	" https://example.org/a/b", " é ü 漢", " *", "/"}
var c18BlockBodies = []string{"", " comment ", "*", "**", " \"mode\": \"sim\", ", " a // b ", " /* nested open ", " } ] , : ", "/", " / * ", " \"", " é 漢 ",
	" * / ", "x*", " https://example.org/a "}

func (c *ctx) c18LineComment() string {
	return "//" + c18LineBodies[c.rng.Intn(len(c18LineBodies))]
}

func (c *ctx) c18BlockComment() string {
	return "/*" + c18BlockBodies[c.rng.Intn(len(c18BlockBodies))] + "*/"
}

// insert a comment into gap i of the document. kind 'l' line comment (followed by a newline unless it ends the file
// and eofBare), 'b' block comment.
func c18Insert(d *c18doc, i int, kind byte, comment string, eofBare bool) {
	switch kind {
	case 'l':
		if i == len(d.toks) && eofBare {
			d.seps[i] = d.seps[i] + comment
		} else {
			d.seps[i] = d.seps[i] + comment + "\n"
		}
	case 'b':
		d.seps[i] = d.seps[i] + comment
	}
}

func (c *ctx) c18Insertions(r *c18run, baseIdx int, toks []string) {
	for layout := 0; layout < 3; layout++ {
		if layout > 0 && baseIdx%3 != layout { // every base in the pretty layout, a third each in compact / one-line
			continue
		}
		base := c.c18Layout(toks, layout)
		bres := r.load(base.text())
		n := len(base.toks)
		emit := func(desc string, d *c18doc) {
			res := r.load(d.text())
			c.t.Case("ins/"+strings.SplitN(desc, ".", 2)[0], true, "ins %d.%d.%s | %s | %s", baseIdx, layout, desc, bres.toks, res.toks)
		}
		// one comment at a time, at every inter-token position (incl. before the first and after the last token)
		for i := 0; i <= n; i++ {
			d := base.clone()
			c18Insert(d, i, 'l', c.c18LineComment(), false)
			emit(fmt.Sprintf("line.%d", i), d)
			d = base.clone()
			c18Insert(d, i, 'b', c.c18BlockComment(), false)
			emit(fmt.Sprintf("block.%d", i), d)
		}
		// line comment ending the file without a newline
		d := base.clone()
		d.seps[n] = ""
		c18Insert(d, n, 'l', c.c18LineComment(), true)
		emit("eof-bare.0", d)
		d = base.clone()
		d.seps[n] = "\n"
		c18Insert(d, n, 'l', "//", true)
		emit("eof-bare.1", d)
		// two block comments on one line, a token (or several) between them
		for k := 0; k < 6 && n >= 3; k++ {
			d := base.clone()
			i := c.rng.Intn(n - 1)
			j := i + 1 + c.rng.Intn(min(3, n-i-1))
			for g := i + 1; g <= j; g++ { // keep them on one line
				d.seps[g] = strings.NewReplacer("\n", " ", "\r", " ").Replace(d.seps[g])
			}
			c18Insert(d, i, 'b', c.c18BlockComment(), false)
			c18Insert(d, j, 'b', c.c18BlockComment(), false)
			emit(fmt.Sprintf("two-blocks.%d-%d", i, j), d)
		}
		// two adjacent block comments; a line comment after a block comment; a block comment before a line comment's newline
		for k := 0; k < 4; k++ {
			d := base.clone()
			i := c.rng.Intn(n + 1)
			d.seps[i] += c.c18BlockComment() + c.c18BlockComment()
			emit(fmt.Sprintf("adjacent-blocks.%d", i), d)
			d = base.clone()
			i = c.rng.Intn(n + 1)
			d.seps[i] += c.c18BlockComment() + " " + c.c18LineComment() + "\n"
			emit(fmt.Sprintf("block-then-line.%d", i), d)
			d = base.clone()
			i = c.rng.Intn(n + 1)
			d.seps[i] += c.c18BlockComment() + c.c18LineComment() + "\n" + c.c18BlockComment()
			emit(fmt.Sprintf("block-line-block.%d", i), d)
		}
		// several at once at random positions
		for k := 0; k < 6; k++ {
			d := base.clone()
			m := 2 + c.rng.Intn(6)
			for x := 0; x < m; x++ {
				i := c.rng.Intn(n + 1)
				if c.rng.Intn(2) == 0 {
					c18Insert(d, i, 'l', c.c18LineComment(), false)
				} else {
					c18Insert(d, i, 'b', c.c18BlockComment(), false)
				}
			}
			emit(fmt.Sprintf("several.%d", k), d)
		}
		// a comment in every gap: all line, all block, mixed
		for mode := 0; mode < 3; mode++ {
			d := base.clone()
			for i := 0; i <= n; i++ {
				if mode == 0 || (mode == 2 && c.rng.Intn(2) == 0) {
					c18Insert(d, i, 'l', c.c18LineComment(), false)
				} else {
					c18Insert(d, i, 'b', c.c18BlockComment(), false)
				}
			}
			emit(fmt.Sprintf("every-gap.%d", mode), d)
		}
	}
}

// ---------------------------------------------------------------- removeComments vs the scanner

type c18piece struct {
	kind byte
	body string
}

func c18Render(ps []c18piece) string {
	var sb strings.Builder
	for _, p := range ps {
		switch p.kind {
		case 't':
			sb.WriteString(p.body)
		case 'l':
			sb.WriteString("//" + p.body)
		case 'b':
			sb.WriteString("/*" + p.body + "*/")
		}
	}
	return sb.String()
}

func (c *ctx) c18RandFrom(alpha string, n int) string {
	b := make([]byte, n)
	for i := range b {
		b[i] = alpha[c.rng.Intn(len(alpha))]
	}
	return string(b)
}

func (c *ctx) c18StripPieces(wellFormed bool) []c18piece {
	var ps []c18piece
	n := 1 + c.rng.Intn(7)
	textAlpha := "ab \"{}:,1\n\t*é/"
	bodyAlpha := "ab \"/*{}:,x é\t"
	needNL := false
	for i := 0; i < n; i++ {
		switch c.rng.Intn(3) {
		case 0:
			t := c.c18RandFrom(textAlpha, c.rng.Intn(12))
			if wellFormed {
				t = strings.ReplaceAll(strings.ReplaceAll(t, "//", "/ /"), "/*", "/ *")
				t = strings.TrimRight(t, "/")
			}
			if needNL {
				t = "\n" + t
				needNL = false
			}
			ps = append(ps, c18piece{'t', t})
		case 1:
			if needNL {
				ps = append(ps, c18piece{'t', "\n"})
			}
			b := c.c18RandFrom(bodyAlpha, c.rng.Intn(10))
			if !wellFormed && c.rng.Intn(4) == 0 {
				b += "\n" + c.c18RandFrom(bodyAlpha, 3)
			}
			ps = append(ps, c18piece{'l', b})
			needNL = wellFormed
		default:
			if needNL {
				ps = append(ps, c18piece{'t', "\n"})
				needNL = false
			}
			b := c.c18RandFrom(bodyAlpha, c.rng.Intn(10))
			if wellFormed {
				b = strings.ReplaceAll(b, "*/", "* /")
			} else if c.rng.Intn(4) == 0 {
				b += "\n" + c.c18RandFrom(bodyAlpha, 3) // multi-line block comment
			}
			ps = append(ps, c18piece{'b', b})
		}
	}
	return ps
}

func (c *ctx) c18StripCases() {
	emitP := func(class string, ps []c18piece) {
		in := c18Render(ps)
		out := pfcpiface.VerifRemoveComments(in)
		var sb strings.Builder
		for _, p := range ps {
			fmt.Fprintf(&sb, " %c%s", p.kind, hexs(p.body))
		}
		c.t.Case("rc/"+class, strings.Contains(in, "/"), "rc P%s | %s", sb.String(), hexs(out))
	}
	emitR := func(class, in string) {
		out := pfcpiface.VerifRemoveComments(in)
		c.t.Case("rc/"+class, strings.Contains(in, "/"), "rc R %s | %s", hexs(in), hexs(out))
	}
	// fixed adversarial texts
	for _, s := range []string{"", "/", "a/", "//", "/*", "*/", "/**/", "/***/", "/*/", "/*/*/", "/* // */x", "// /* \n */", "/* a\nb */", "/*\n*/",
		"\"a//b\"", "\"a/*b*/c\"", "\"http://x/y\"", "x /* a */ y /* b */ z", "x /* a */ y // b", "x // a /* b */\ny", "x // a\r\ny", "/* a */\n/* b */",
		"/* a **/ b */", "/* a * / b */ c", "a / / b", "a / * b * / c", "1/2//3", "1/2/*3*/4", "/*/ x */", "//*/ x", "/*//*/ x", "/ /", "/\n/", "/\n*", "*//",
		"*/ /*", "/* open\n \"p\": \"/tmp/x\" /*/ */ }", "\xff//\xfe\n\xfd", "/*\xff*/\x80", "é//é\né", "//\n//\n", "/**//**/", "/**///", "///**/", "a//", "a/*",
		"a/**", "a/**/", "\n", "//\n", "\n//", "/*\r*/", "{\n  // c1\n  \"a\": 1, /* x // y */ \"b\": 2\n}"} {
		emitR("fixed", s)
	}
	for i := 0; i < c.pick(1500, 60000); i++ {
		emitP("pieces-wf", c.c18StripPieces(true))
	}
	for i := 0; i < c.pick(1500, 60000); i++ {
		emitP("pieces-any", c.c18StripPieces(false))
	}
	for i := 0; i < c.pick(3000, 200000); i++ {
		emitR("marker-soup", c.c18RandFrom("/*\n a\"/*", c.rng.Intn(24)))
	}
	for i := 0; i < c.pick(500, 20000); i++ {
		b := make([]byte, c.rng.Intn(40))
		c.rng.Read(b)
		emitR("bytes", string(b))
	}
}

// ---------------------------------------------------------------- arbitrary bytes, mutated documents

func (c *ctx) c18Fuzz(r *c18run, docs []string) {
	emit := func(class, text string) {
		res := r.load(text)
		c.t.Case("fuzz/"+class+"/"+c18Outcome(res), !res.syntax, "fuzz %s | %s | %s", class, c18Preds(res.strs), res.toks)
	}
	for _, s := range []string{"", " ", "\n", "null", "[]", "123", "\"str\"", "{}", "{", "}", "//", "/* */", "// only a comment\n", "{} // trailing", "{}{}", "{} x",
		"\xef\xbb\xbf{\"mode\":\"dpdk\"}", "{\"mode\":\"dpdk\"}\x00", "\x00", strings.Repeat("[", 20000), strings.Repeat("{\"a\":", 12000),
		"{\"mode\":\"dpdk\",\"read_timeout\":1e400}", "{\"mode\":\"dpdk\",\"read_timeout\":" + strings.Repeat("9", 5000) + "}",
		"{\"mode\":\"dp\\udc00dk\"}", "{\"mode\":\"dpdk\",\"mode\":\"x\"}", "{\"mode\":\"x\",\"MODE\":\"dpdk\"}", "{\"mode\":\"dpdk\",\"cpiface\":5}",
		"{\"mode\":\"dpdk\",\"cpiface\":{\"peers\":{}}}", "{\"mode\":\"dpdk\",\"sim\":{\"start_ue_ip\":\"bad\"}}", "{\"mode\":\"dpdk\",\"p4rtciface\":{\"qfi_tc_mapping\":{\"x\":1}}}",
		"{\"mode\":\"dpdk\",\"qci_qos_config\":[null,{},5]}", "{\"mode\":\"dpdk\" /* multi\nline */}", "{\"mode\":\"dpdk\" /* unterminated }",
		"{\"mode\":\"dp//dk\"}", "{\"mode\": \"dpdk\", \"notify_sockaddr\": \"http://x\"}", "{\"mode\": \"dpdk\", \"notify_sockaddr\": \"a/*b*/c\"}",
		"{\"mode\": \"dpdk\", \"notify_sockaddr\": \"/* \", \"endmarker_sockaddr\": \" */\"}", "{\"mode\": \"dp\\/\\/dk\"}"} {
		emit("fixed", s)
	}
	// nonexistent path, a directory
	for _, p := range []string{filepath.Join(r.dir, "does-not-exist.jsonc"), r.dir} {
		res := c18LoadPath(p)
		c.t.Case("fuzz/io/"+c18Outcome(res), false, "fuzz io | %s | %s", c18Preds(res.strs), res.toks)
	}
	for i := 0; i < c.pick(1500, 600000); i++ {
		b := make([]byte, c.rng.Intn(120))
		c.rng.Read(b)
		emit("bytes", string(b))
	}
	for i := 0; i < c.pick(1500, 400000); i++ {
		emit("json-soup", c.c18RandFrom("{}[]\":,/*\n 01ae-.tfn\\", c.rng.Intn(60)))
	}
	markers := []string{"//", "/*", "*/", "/* */", "/**/", "/", "*", "\n", "\"", "// x\n", "/* x\ny */"}
	for i := 0; i < c.pick(3000, 300000); i++ {
		b := []byte(docs[c.rng.Intn(len(docs))])
		class := "mutated"
		for m := 0; m <= c.rng.Intn(3); m++ {
			if len(b) == 0 {
				break
			}
			p := c.rng.Intn(len(b))
			switch c.rng.Intn(7) {
			case 0:
				b[p] ^= byte(1 << uint(c.rng.Intn(8)))
			case 1:
				b = append(b[:p], b[p+1:]...)
			case 2:
				b = b[:p]
			case 3:
				q := p + c.rng.Intn(len(b)-p)
				b = append(b[:q], append(append([]byte{}, b[p:q]...), b[q:]...)...)
			case 4:
				b[p] = byte(c.rng.Intn(256))
			default:
				mk := markers[c.rng.Intn(len(markers))]
				b = append(b[:p], append([]byte(mk), b[p:]...)...)
				class = "mutated-marker"
			}
		}
		emit(class, string(b))
	}
}

// documents whose string values contain comment markers, and multi-line block comments between tokens
func (c *ctx) c18MarkerDocs(r *c18run, k *c18keys) {
	marks := []string{"//", "/*", "*/", "/**/", "/* x */", "a//b", "http://x/y", "/*//", "*//*"}
	for i := 0; i < c.pick(300, 20000); i++ {
		s := c18Base(c.rng.Intn(2) == 0)
		m := marks[c.rng.Intn(len(marks))]
		class := "marker-in-string"
		switch c.rng.Intn(6) {
		case 0:
			s.f[fMode] = jS("dp" + m + "dk")
		case 1:
			s.f[fResp] = jS("2s" + m)
		case 2:
			s.f[fPool] = jS("10.250.0.0/16" + m)
			s.f[fAlloc] = jB(true)
		case 3:
			s.peersK, s.peers = 'L', []jv{jS("10.0.0.1"), jS(m)}
		case 4:
			s.f[fHB], s.f[fHBI] = jB(true), jS(m+"5s")
		default:
			s.f[fAccess] = jS(m)
		}
		toks := c.c18Tokens(&s, k, 1, true)
		d := c.c18Layout(toks, c.rng.Intn(4))
		if c.rng.Intn(3) == 0 {
			class = "multiline-block"
			s2 := c18Base(c.rng.Intn(2) == 0)
			d = c.c18Layout(c.c18Tokens(&s2, k, 1, true), c.rng.Intn(3))
			d.seps[c.rng.Intn(len(d.seps))] += "/* first line\n second line */"
		}
		res := r.load(d.text())
		c.t.Case("fuzz/"+class+"/"+c18Outcome(res), !res.syntax, "fuzz %s | %s | %s", class, c18Preds(res.strs), res.toks)
	}
}

// ---------------------------------------------------------------- main

func c18(c *ctx) {
	work := os.Getenv("VERIF_WORK")
	if work == "" {
		work = os.TempDir()
	}
	dir, err := os.MkdirTemp(work, "c18-")
	if err != nil {
		panic(err)
	}
	defer os.RemoveAll(dir)
	keys := c18Keys()
	r := &c18run{dir: dir, keys: keys}
	vals, peerVals := c18Classes()
	var texts []string // comment-free documents (pool for the mutation class)
	var insBases [][]string
	selfFail := 0

	one := func(class string, s *c18spec, noise int, layout int, wantIns bool) {
		toks := c.c18Tokens(s, &keys, noise, true)
		text := c.c18Layout(toks, layout).text()
		// self-check of the harness's field extractor (used for the sample files) against the generator
		if ex, err := c18Extract(text, &keys); err != nil || !ex.equal(s) {
			selfFail++
			c.t.Case("selfcheck-fail", false, "selfcheck-fail %s", hexs(text))
		}
		res := c.c18LoadCase(r, class, s, text)
		if len(texts) < 400 {
			texts = append(texts, text)
		}
		if wantIns && !res.syntax {
			insBases = append(insBases, toks)
		}
	}

	// (a1) systematic: every value of every field's class list on both valid bases
	for _, p4 := range []bool{false, true} {
		b := c18Base(p4)
		one("base", &b, 0, 1, true)
		for f := 0; f < nFields; f++ {
			for _, v := range vals[f] {
				s := c18Base(p4)
				s.f[f] = v
				// make the field matter: heartbeat interval needs the timer, pool needs a consumer
				if f == fHBI {
					s.f[fHB] = jB(true)
				}
				if f == fPool && !p4 {
					s.f[fAlloc] = jB(true)
				}
				one("single/"+c18FieldNames[f], &s, c.rng.Intn(2), c.rng.Intn(4), false)
			}
		}
		for _, pv := range peerVals {
			s := c18Base(p4)
			s.peersK, s.peers, s.peersO = pv.peersK, pv.peers, pv.peersO
			one("single/peers", &s, c.rng.Intn(2), c.rng.Intn(4), false)
		}
	}
	// (a2) random: a valid base with k fields replaced by random members of their classes; k = 0 gives rich valid documents
	nIns := 0
	for i := 0; i < c.pick(1300, 100000); i++ {
		s := c18Base(c.rng.Intn(2) == 0)
		class := "random/near-valid"
		k := c.rng.Intn(4)
		if c.rng.Intn(5) == 0 {
			k = 4 + c.rng.Intn(9)
			class = "random/many"
		}
		// a rich, valid filling first
		if c.rng.Intn(2) == 0 {
			valid := func(f int, ss ...string) { s.f[f] = jS(ss[c.rng.Intn(len(ss))]) }
			if c.rng.Intn(2) == 0 {
				valid(fResp, "2s", "1s", "500ms", "1h2m3s", "")
			}
			if c.rng.Intn(2) == 0 {
				s.f[fHB] = jB(true)
				valid(fHBI, "5s", "", "10s", "1m")
			}
			if c.rng.Intn(2) == 0 {
				s.f[fAlloc] = jB(true)
				valid(fPool, "10.250.0.0/16", "10.250.0.0/30", "fd00::/64")
			}
			if c.rng.Intn(2) == 0 {
				s.f[fRead] = jI([]string{"0", "1", "15", "25", "4294967295"}[c.rng.Intn(5)])
				s.f[fRetr] = jI([]string{"0", "1", "5", "255"}[c.rng.Intn(4)])
			}
			if c.rng.Intn(2) == 0 {
				valid(fLvl, "info", "debug", "warn", "error", "DEBUG", "")
				s.f[fTC] = jI([]string{"0", "1", "2", "3", "255"}[c.rng.Intn(5)])
			}
			if c.rng.Intn(2) == 0 {
				s.peersK, s.peers = 'L', []jv{jS("148.162.12.214"), jS("::1"), jS("10.0.0.7")}[:1+c.rng.Intn(3)]
			}
		}
		for x := 0; x < k; x++ {
			f := c.rng.Intn(nFields + 1)
			if f == nFields {
				pv := peerVals[c.rng.Intn(len(peerVals))]
				s.peersK, s.peers, s.peersO = pv.peersK, pv.peers, pv.peersO
			} else {
				s.f[f] = vals[f][c.rng.Intn(len(vals[f]))]
			}
		}
		wantIns := nIns < c.pick(48, 400) && i%3 == 0
		before := len(insBases)
		one(class, &s, 1, c.rng.Intn(4), wantIns)
		if len(insBases) > before {
			nIns++
		}
	}
	// (b) comments at every inter-token position of the base documents
	for i, toks := range insBases {
		c.c18Insertions(r, i, toks)
	}
	// (c) removeComments vs the Lean scanner, verbatim
	c.c18StripCases()
	// (d) crash-freedom and validity on arbitrary bytes, mutated documents, markers inside strings, multi-line block comments
	c.c18Fuzz(r, texts)
	c.c18MarkerDocs(r, &keys)
	// (e) the shipped sample files
	repo := os.Getenv("VERIF_REPO")
	if repo == "" {
		repo = "/repo"
	}
	var samples []string
	for _, pat := range []string{"conf/*.jsonc", "ptf/config/*.jsonc"} {
		m, _ := filepath.Glob(filepath.Join(repo, pat))
		samples = append(samples, m...)
	}
	sort.Strings(samples)
	for _, p := range samples {
		rel, _ := filepath.Rel(repo, p)
		raw, err := os.ReadFile(p)
		if err != nil {
			panic(err)
		}
		// files named upf.jsonc are configurations of this loader; the cndp_*.jsonc files are read by the CNDP library
		kind := "other"
		if filepath.Base(p) == "upf.jsonc" {
			kind = "upf"
		}
		res := c18LoadPath(p)
		stripped := pfcpiface.VerifRemoveComments(string(raw))
		doc := "nodoc"
		var strs []string
		if s, err := c18Extract(stripped, &keys); err == nil {
			doc = s.fieldToks()
			strs = s.strings()
		}
		c.t.Case("sample/"+kind+"/"+c18Outcome(res), true, "sample %s %s | %s | %s | %s", hexs(rel), kind, doc, c18Preds(strs, c18Documented, res.strs), res.toks)
		c.t.Case("rc/sample", true, "rc R %s | %s", hexs(string(raw)), hexs(stripped))
	}
	if len(samples) == 0 {
		c.t.Case("sample/none", false, "sample-none")
	}
	// the model's Duration.String against Go's
	durs := []int64{0, 1, 999, 1000, 1001, 999999, 1000000, 1500000, 999999999, 1000000000, 1000000001, 1500000000, 2000000000, 5000000000, 15000000000,
		59999999999, 60000000000, 61000000000, 3599000000000, 3600000000000, 3661000000000, 86400000000000, 9223372036854775807, 100000000, 10000000000, 1010000000}
	for i := 0; i < c.pick(300, 20000); i++ {
		durs = append(durs, c.rng.Int63()>>uint(c.rng.Intn(63)))
	}
	for i := int64(1); i <= 120; i++ {
		durs = append(durs, i*1000000000)
	}
	for _, d := range durs {
		c.t.Case("durstr", d != 0, "durstr %d %s", d, hexs(time.Duration(d).String()))
	}
	c.extra["documents_loaded"] = r.n
	c.extra["insertion_bases"] = len(insBases)
	c.extra["sample_files"] = len(samples)
	c.extra["selfcheck_failures"] = selfFail
	c.extra["nontrivial_rule"] = "load/ins/fuzz/sample: the document got past JSON syntax (reached decoding or validation); rc: the text contains a '/'; durstr: non-zero"
}
