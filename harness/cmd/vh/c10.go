package main

import (
	"fmt"
	"os"
	"strings"
	"time"

	"github.com/wmnsk/go-pfcp/ie"
	"github.com/wmnsk/go-pfcp/message"

	"verifharness/internal/sysh"
)

func init() { props["C10"] = c10 }

// delCounts returns, for the given session, how many of its datapath keys were deleted 0 / 1 / more times.
func delCounts(log []string, seids []uint64) (zero, once, more int, installed int) {
	for _, seid := range seids {
		keys := map[string]int{}
		for _, l := range log {
			// "module cmd key=value"
			f := strings.SplitN(l, " ", 3)
			if len(f) < 3 {
				continue
			}
			kv := strings.SplitN(f[2], "=", 2)
			k := f[0] + "|" + kv[0]
			switch f[1] {
			case "add":
				// the session's SEID is part of the key (FAR, QER) or of the value (PDR)
				if containsSeid(","+kv[0], seid) || (len(kv) > 1 && f[0] == "pdrLookup" && containsSeid(","+kv[1], seid)) {
					if _, ok := keys[k]; !ok {
						keys[k] = 0
					}
				}
			case "delete":
				if _, ok := keys[k]; ok {
					keys[k]++
				}
			}
		}
		for _, n := range keys {
			installed++
			switch {
			case n == 0:
				zero++
			case n == 1:
				once++
			default:
				more++
			}
		}
	}
	return
}

// keepAlive services the given peers in the background (answers the agent's heartbeats, sends their own) until stopped.
func keepAlive(peers []*sysh.Peer) (stop func()) {
	quit := make(chan struct{})
	done := make(chan struct{})
	go func() {
		defer close(done)
		last := time.Now()
		for {
			select {
			case <-quit:
				return
			default:
			}
			for _, p := range peers {
				p.Idle(8 * time.Millisecond)
			}
			if time.Since(last) > 250*time.Millisecond {
				last = time.Now()
				for _, p := range peers {
					_ = p.SendRaw(sysh.Marshal(message.NewHeartbeatRequest(p.NextSeq(), ie.NewRecoveryTimeStamp(time.Unix(1700000000, 0)), nil)))
				}
			}
		}
	}()
	return func() { close(quit); <-done }
}

func c10(c *ctx) {
	r := c.rng
	type script struct {
		name     string
		triggers []string // applied to association 0 (and the node for "stop")
		hb       bool
		readTO   int
	}
	scripts := []script{
		{"stop", []string{"stop"}, false, 600},
		{"stop-inflight", []string{"inflight", "stop"}, false, 600},
		{"release+stop", []string{"release-nowait", "stop"}, false, 600},
		{"release", []string{"release"}, false, 600},
		{"timeout", []string{"timeout"}, false, 1},
		// the peer is silent past the read timeout and speaks again while its sessions are being removed (slow datapath): what
		// the dying association still accepts must be removed with it
		{"timeout-late-request", []string{"timeout-late"}, false, 1},
		{"hbdead", []string{"hbdead"}, true, 600},
		{"timeout+hbdead", []string{"timeout+hbdead"}, true, 1},
		{"hbdead+stop", []string{"hbdead-nowait", "stop"}, true, 600},
		{"release+release", []string{"release-nowait", "release-nowait", "settle"}, false, 600},
		// association 0 is set up by the agent itself towards a peer configured by host name
		{"initiated+stop", []string{"stop"}, false, 600},
		{"initiated+release", []string{"release"}, false, 600},
		{"initiated-by-name+stop", []string{"stop"}, false, 600},
		// many new peers whose FIRST datagram is an Association Release Request (it is handled while the association is
		// being registered); each must be able to associate afterwards, and the agent must still stop
		{"first-datagram-release+stop", []string{"strangers", "stop"}, false, 600},
	}
	reps := c.pick(2, 30)
	for _, sc := range scripts {
		for rep := 0; rep < reps; rep++ {
			for _, nAssoc := range []int{0, 1, 3} {
				if nAssoc == 0 && sc.name != "stop" {
					continue
				}
				if !c.thorough() && nAssoc == 3 && rep > 0 {
					continue
				}
				if strings.HasPrefix(sc.name, "first-datagram") && (rep > 1 || (!c.thorough() && (rep > 0 || nAssoc == 3))) {
					continue // thousands of peers per run: a few runs are enough
				}
				o := sysh.Opts{ReadTimeout: sc.readTO, HB: sc.hb}
				initiated := strings.HasPrefix(sc.name, "initiated")
				if initiated {
					if nAssoc == 0 {
						continue
					}
					if strings.Contains(sc.name, "by-name") {
						o.PeerNames = []string{"localhost"}
					} else {
						o.Peers = []string{"127.0.0.1"}
					}
				}
				if sc.hb {
					// the heartbeat dies at ~ interval + 2 x resp_timeout; with "timeout+hbdead" that is about the read timeout (1 s)
					o.HBInterval, o.RespTimeout, o.MaxRetries = "800ms", "100ms", 1
				}
				w, err := newWorld(c, o)
				if err != nil {
					panic(err)
				}
				var p0 *sysh.Peer
				if initiated {
					// "localhost" resolves to 127.0.0.1; the port is fixed by the protocol
					if p0, err = w.s.NewPeerAt("127.0.0.1", 8805); err != nil {
						w.emit("life/"+sc.name+"/skipped", false, map[string]interface{}{"k": "note", "msg": "127.0.0.1:8805 is not available: " + err.Error()})
						w.close()
						continue
					}
				}
				if !w.start() {
					w.close()
					return
				}
				w.s.Bess.TakeLog()
				var seids [][]uint64
				for a := 0; a < nAssoc; a++ {
					if a == 0 && initiated {
						if !p0.AcceptAssociation(5 * time.Second) {
							w.emit("life/"+sc.name+"/skipped", false, map[string]interface{}{"k": "note", "msg": "the agent did not ask for an association"})
						}
						w.peers, w.nodes = []*sysh.Peer{p0}, []string{p0.Addr}
						time.Sleep(30 * time.Millisecond)
					} else {
						w.assoc(a)
					}
					w.peers[a].AnswerHB = true
					var mine []uint64
					for k := 0; k < r.Intn(3); k++ {
						pdrs, fars, qers := w.genSession(r.Intn(8))
						w.nextCP++
						if h, _ := w.est(a, w.nodes[a], w.nextCP, pdrs, fars, qers, "c10"); h != nil {
							mine = append(mine, h.up)
						}
					}
					seids = append(seids, mine)
				}
				stopped, exitMs, stopIssued := false, int64(-1), false
				strangersRefused := 0
				stopKeep := func() {}
				if nAssoc > 1 {
					stopKeep = keepAlive(w.peers[1:])
				}
				for _, tr := range sc.triggers {
					if nAssoc == 0 && tr != "stop" {
						continue
					}
					switch tr {
					case "inflight":
						// a request is on its way when the agent is stopped
						p := w.peers[0]
						pdrs, fars, qers := w.genSession(0)
						var ies []*ie.IE
						ies = append(ies, ie.NewNodeID(w.nodes[0], "", ""), ie.NewFSEID(99999, p.IP, nil))
						for _, x := range pdrs {
							ies = append(ies, x.Create())
						}
						for _, x := range fars {
							ies = append(ies, x.Create())
						}
						for _, x := range qers {
							ies = append(ies, x.Create())
						}
						_ = p.SendRaw(sysh.Marshal(message.NewSessionEstablishmentRequest(0, 0, 0, p.NextSeq(), 0, ies...)))
					case "stop":
						t0 := time.Now()
						stopIssued = true
						if rep%2 == 1 {
							time.Sleep(time.Duration(r.Intn(3000)) * time.Microsecond)
						}
						_, _ = w.s.Ctl("stop", 10*time.Millisecond)
						if w.s.WaitExit(8 * time.Second) {
							stopped = true
							exitMs = time.Since(t0).Milliseconds()
						}
					case "release":
						w.release(0)
					case "release-nowait":
						p := w.peers[0]
						_ = p.SendRaw(sysh.Marshal(message.NewAssociationReleaseRequest(p.NextSeq(), ie.NewNodeID(w.nodes[0], "", ""))))
						if rep%2 == 1 {
							time.Sleep(time.Duration(r.Intn(2000)) * time.Microsecond)
						}
					case "strangers":
						bad := 0
						for k := 0; k < strangersN(c) && bad < 2; k++ {
							sp, err := w.s.NewPeer(true)
							if err != nil {
								break
							}
							_ = sp.SendRaw(sysh.Marshal(message.NewAssociationReleaseRequest(sp.NextSeq(), ie.NewNodeID(sp.Addr, "", ""))))
							sp.Recv(30 * time.Millisecond) // its response
							time.Sleep(2 * time.Millisecond)
							// the same address now sets an association up: the request must be answered
							// (retransmitted like a real peer would: the node forgets the released association asynchronously)
							answered := false
							for try := 0; try < 4 && !answered; try++ {
								seq := sp.NextSeq()
								_ = sp.SendRaw(sysh.Marshal(message.NewAssociationSetupRequest(seq, ie.NewNodeID(sp.Addr, "", ""), ie.NewRecoveryTimeStamp(time.Unix(1700000000, 0)))))
								if rr, ok := sp.Recv(150 * time.Millisecond); ok && len(rr) > 0 {
									answered = true
								}
							}
							if !answered {
								bad++
								strangersRefused++
							}
							sp.Close()
						}
					case "settle":
						time.Sleep(50 * time.Millisecond)
						w.quiesce()
					case "timeout":
						time.Sleep(1400 * time.Millisecond)
						w.quiesce()
					case "timeout-late":
						p := w.peers[0]
						for k := 0; k < 2; k++ { // the teardown has something to delete
							pdrs, fars, qers := w.genSession(0)
							w.nextCP++
							if h, _ := w.est(0, w.nodes[0], w.nextCP, pdrs, fars, qers, "c10-late"); h != nil {
								seids[0] = append(seids[0], h.up)
							}
						}
						fired := make(chan struct{}, 1)
						slowed := 0
						w.s.Bess.SetOnCmd(func(n int, module, cmd string) bool {
							if cmd == "delete" {
								select {
								case fired <- struct{}{}:
								default:
								}
								if slowed < 8 { // a datapath that is slow for a moment: the teardown takes about 200 ms longer
									slowed++
									time.Sleep(25 * time.Millisecond)
								}
							}
							return true
						})
						select {
						case <-fired:
							// the teardown after the read timeout has begun: the peer speaks again
							pdrs, fars, qers := w.genSession(0)
							ies := []*ie.IE{ie.NewNodeID(w.nodes[0], "", ""), ie.NewFSEID(99998, p.IP, nil)}
							for _, x := range pdrs {
								ies = append(ies, x.Create())
							}
							for _, x := range fars {
								ies = append(ies, x.Create())
							}
							for _, x := range qers {
								ies = append(ies, x.Create())
							}
							seq := p.NextSeq()
							_ = p.SendRaw(sysh.Marshal(message.NewSessionEstablishmentRequest(0, 0, 0, seq, 0, ies...)))
							deadline := time.Now().Add(900 * time.Millisecond)
							for time.Now().Before(deadline) {
								rr, ok := p.Recv(time.Until(deadline))
								if !ok {
									break
								}
								o := sysh.Obs{Markers: [][]uint64{}}
								o.Decode([][]byte{rr}, seq)
								if o.Type == message.MsgTypeSessionEstablishmentResponse && o.Cause == 1 && o.Up != 0 {
									seids[0] = append(seids[0], o.Up) // accepted by the dying association: it must be removed as well
									break
								}
							}
						case <-time.After(3 * time.Second):
						}
						time.Sleep(600 * time.Millisecond)
						w.s.Bess.SetOnCmd(nil)
						w.quiesce()
					case "hbdead":
						w.peers[0].AnswerHB = false
						w.peers[0].Idle(1500 * time.Millisecond)
						w.quiesce()
					case "hbdead-nowait":
						w.peers[0].AnswerHB = false
						w.peers[0].Idle(time.Duration(950+r.Intn(120)) * time.Millisecond) // the stop lands around the declaration of death
					case "timeout+hbdead":
						// silence: the read timeout (1 s) and the heartbeat failure (0.8 + 0.2 s) coincide
						w.peers[0].AnswerHB = false
						time.Sleep(1600 * time.Millisecond)
						w.quiesce()
					}
				}
				stopKeep()
				alive := !w.s.Exited()
				crash := ""
				if !alive && !(stopIssued && stopped && !strings.Contains(w.s.Stderr(), "panic:") && !strings.Contains(w.s.Stderr(), "fatal error")) {
					crash = w.s.CrashInfo()
				}
				if stopIssued && !stopped {
					_, _ = w.s.Ctl("dump", time.Second)
					crash = "stop did not complete within 8 s"
				}
				log := w.s.Bess.TakeLog()
				// sessions of association 0 (and of all associations when the agent stopped) must be deleted exactly once
				var ended []uint64
				for a, l := range seids {
					if a == 0 || stopIssued {
						ended = append(ended, l...)
					}
				}
				zero, once, more, installed := delCounts(log, ended)
				// the peer can associate afresh; other associations are unaffected
				fresh, others := 1, 1
				if strangersRefused > 0 {
					fresh = 0
				}
				if alive && !stopIssued && nAssoc > 0 {
					w.peers[0].Fresh = true
					w.peers[0].AnswerHB = true
					if !w.assoc(0) {
						fresh = 0
					}
					for a := 1; a < nAssoc; a++ {
						for _, s := range seids[a] {
							if w.del(a, s, "c10-other").Cause != 1 {
								others = 0
							}
						}
					}
				}
				w.emit("life/"+sc.name, true, map[string]interface{}{"k": "life", "script": sc.name, "assocs": nAssoc, "stop": stopIssued,
					"obs": map[string]interface{}{"alive": alive, "stopped": stopped, "exit_ms": exitMs, "crash": crash, "installed": installed,
						"deleted_never": zero, "deleted_once": once, "deleted_more": more, "fresh_ok": fresh, "others_ok": others}})
				w.close()
			}
		}
	}
}

func strangersN(c *ctx) int {
	if v := os.Getenv("VERIF_STRANGERS"); v != "" {
		n := 0
		fmt.Sscanf(v, "%d", &n)
		if n > 0 {
			return n
		}
	}
	return c.pick(250, 3000)
}
