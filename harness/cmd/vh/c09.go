package main

import (
	"fmt"
	"strings"

	"github.com/omec-project/upf-epc/pfcpiface"

	"verifharness/internal/sysh"
)

func init() { props["C09"] = c09 }

func c09Mark(c *ctx, class string, lists [][]uint32, qers []pfcpiface.VerifQER) {
	var sb strings.Builder
	fmt.Fprintf(&sb, "mark %d", len(lists))
	for _, l := range lists {
		fmt.Fprintf(&sb, " %d", len(l))
		for _, x := range l {
			fmt.Fprintf(&sb, " %d", x)
		}
	}
	fmt.Fprintf(&sb, " | %d", len(qers))
	for _, q := range qers {
		fmt.Fprintf(&sb, " %d %d %d %d", q.ID, q.UlMbr, q.UlGbr, q.DlGbr)
	}
	var out []pfcpiface.VerifQER
	var ol [][]uint32
	p := safely(func() { out, ol = pfcpiface.VerifMarkSessionQer(lists, qers) })
	if p != "" {
		c.t.Case(class+"/panic", true, "%s => panic %s", sb.String(), p)
		return
	}
	sb.WriteString(" =>")
	marked := false
	for _, q := range out {
		fmt.Fprintf(&sb, " %d", b01(q.Session))
		marked = marked || q.Session
	}
	sb.WriteString(" |")
	for _, l := range ol {
		fmt.Fprintf(&sb, " %d", len(l))
		for _, x := range l {
			fmt.Fprintf(&sb, " %d", x)
		}
	}
	c.t.Case(class, marked, "%s", sb.String())
}

func c09(c *ctx) {
	// burst arithmetic: rate grid x burst durations
	durs := []uint64{0, 1, 2, 5, 8, 9, 10, 11, 16, 18, 20, 22, 50, 100, 1000, 65535}
	rates := []uint64{0, 1, 7, 8, 9, 24, 100, 999, 1000, 1001, 12345, 1 << 20, 1<<32 - 1, 1 << 32, 1<<40 - 1}
	for i := 0; i < c.pick(3000, 300000); i++ {
		switch c.rng.Intn(3) {
		case 0:
			rates = append(rates, uint64(c.rng.Intn(100000)))
		case 1:
			rates = append(rates, c.rng.Uint64()>>uint(24+c.rng.Intn(40)))
		default:
			rates = append(rates, uint64(8*c.rng.Intn(1<<20))+uint64(c.rng.Intn(8)))
		}
	}
	for i, r := range rates {
		for j, d := range durs {
			if i > 20 && (i+j)%4 != 0 {
				continue
			}
			c.t.Case(fmt.Sprintf("burst/%dms", d), true, "burst %d %d => %d", r, d, pfcpiface.VerifCalcBurst(r, d))
		}
	}
	// MarkSessionQer: all assignments of QER lists (subsets of {1,2,3} in both orders of a pair) to up to 3 PDRs,
	// with up to 3 QERs of varying MBR/GBR, in both QER orders
	subsets := [][]uint32{{}, {1}, {2}, {3}, {1, 2}, {2, 1}, {1, 3}, {3, 1}, {2, 3}, {3, 2}, {1, 2, 3}, {3, 2, 1}, {2, 3, 1}}
	qsets := [][]pfcpiface.VerifQER{
		{},
		{{ID: 1, UlMbr: 100}},
		{{ID: 1, UlMbr: 100}, {ID: 2, UlMbr: 200}},
		{{ID: 2, UlMbr: 200}, {ID: 1, UlMbr: 100}},
		{{ID: 1, UlMbr: 100}, {ID: 2, UlMbr: 200}, {ID: 3, UlMbr: 300}},
		{{ID: 3, UlMbr: 50}, {ID: 1, UlMbr: 100}, {ID: 2, UlMbr: 100}},
		{{ID: 1, UlMbr: 100, UlGbr: 10}, {ID: 2, UlMbr: 200}, {ID: 3, UlMbr: 0}},
		{{ID: 1, UlMbr: 100, DlGbr: 5}, {ID: 2, UlMbr: 200, UlGbr: 1}, {ID: 3, UlMbr: 300, DlGbr: 1}},
		{{ID: 1, UlMbr: 0}, {ID: 2, UlMbr: 0}},
		{{ID: 4, UlMbr: 1}, {ID: 5, UlMbr: 2}, {ID: 1, UlMbr: 0}},
	}
	for np := 0; np <= 3; np++ {
		idx := make([]int, np)
		for {
			lists := make([][]uint32, np)
			for i := range idx {
				lists[i] = subsets[idx[i]]
			}
			for _, qs := range qsets {
				c09Mark(c, fmt.Sprintf("mark/%dpdr/%dqer", np, len(qs)), lists, append([]pfcpiface.VerifQER{}, qs...))
			}
			k := 0
			for k < np {
				idx[k]++
				if idx[k] < len(subsets) {
					break
				}
				idx[k] = 0
				k++
			}
			if k == np {
				break
			}
		}
	}
	c.extra["exhaustive_mark_shapes"] = true
	// system level: QER values through the agent, observed as QoS entries at the BESS server
	for _, qci := range [][]map[string]int{
		{{"qci": 0, "cbs": 50000, "pbs": 50000, "ebs": 50000, "burst_duration_ms": 10, "priority": 7}, {"qci": 9, "cbs": 2048, "pbs": 4096, "ebs": 1024, "burst_duration_ms": 9, "priority": 6}},
		{{"qci": 5, "cbs": 1, "pbs": 100000, "ebs": 3, "burst_duration_ms": 22, "priority": 1}},
	} {
		w, err := newWorld(c, sysh.Opts{ReadTimeout: 600, QCI: qci})
		if err != nil {
			panic(err)
		}
		w.cfgLine()
		if !w.start() {
			w.close()
			return
		}
		w.assoc(0)
		bnd := []uint64{0, 1, 7, 8, 9, 24, 1000, 1001, 123457, 1 << 32, 1<<40 - 1}
		for i := 0; i < c.pick(60, 2000); i++ {
			pdrs, fars, _ := w.genSession(6)
			r := c.rng
			nq := 1 + r.Intn(3)
			var qers []sysh.QerIE
			for k := 0; k < nq; k++ {
				mu, md := bnd[r.Intn(len(bnd))], bnd[r.Intn(len(bnd))]
				gu, gd := uint64(0), uint64(0)
				if r.Intn(3) == 0 {
					gu, gd = mu/2, md/3
				}
				if r.Intn(9) == 0 {
					gu = mu + 5 // GBR above MBR: outside the stated envelope, model correspondence only
					if gu >= 1<<40 {
						gu = 1<<40 - 1 // the IE has 40 bits
					}
				}
				q := sysh.QerIE{ID: uint32(k + 1), Qfi: uint8([]int{0, 5, 9, 63}[r.Intn(4)]), Gate: [2]uint8{uint8(r.Intn(5) / 4), uint8(r.Intn(5) / 4)}, Mbr: [2]uint64{mu, md}, Gbr: [2]uint64{gu, gd}}
				qers = append(qers, q)
				pdrs[0].Qers = append(pdrs[0].Qers, q.ID)
			}
			w.nextCP++
			h, _ := w.est(0, w.nodes[0], w.nextCP, pdrs, fars, qers, "qos")
			if h != nil && r.Intn(2) == 0 {
				// update one QER, then delete the session
				q := h.qers[r.Intn(len(h.qers))]
				q.Mbr = [2]uint64{bnd[r.Intn(len(bnd))], bnd[r.Intn(len(bnd))]}
				q.Gbr = [2]uint64{0, 0}
				w.mod(0, h.up, modReq{uq: []sysh.QerIE{q}}, "qos-update")
			}
			if h != nil {
				w.del(0, h.up, "qos")
			}
		}
		w.close()
	}
}
