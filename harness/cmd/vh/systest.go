package main

import (
	"fmt"
	"net"
	"time"

	"github.com/wmnsk/go-pfcp/ie"
	"github.com/wmnsk/go-pfcp/message"

	"verifharness/internal/sysh"
)

func init() { props["SYSTEST"] = systest }

func systest(c *ctx) {
	s, err := sysh.New(sysh.Opts{UEAlloc: true, Pool: "10.250.0.0/29", EndMarker: true, Notify: true, ReadTimeout: 5})
	if err != nil {
		panic(err)
	}
	defer s.Close()
	t0 := time.Now()
	if err := s.Start(); err != nil {
		fmt.Println("start:", err, s.Stderr())
		return
	}
	fmt.Println("started in", time.Since(t0), s.Stats(), s.Bess.Snapshot(), s.Bess.TakeLog())
	p, _ := s.NewPeer(true)
	asr := message.NewAssociationSetupRequest(p.NextSeq(), ie.NewNodeID(p.Addr, "", ""), ie.NewRecoveryTimeStamp(time.Now()))
	r, ok := p.Exchange(sysh.Marshal(asr), time.Second)
	fmt.Println("assoc", len(r), ok)
	for _, x := range r {
		m, err := message.Parse(x)
		fmt.Println(m, err)
	}
	est := message.NewSessionEstablishmentRequest(0, 0, 0, p.NextSeq(), 0,
		ie.NewNodeID(p.Addr, "", ""), ie.NewFSEID(77, net.ParseIP(p.Addr), nil),
		ie.NewCreatePDR(ie.NewPDRID(1), ie.NewPrecedence(100), ie.NewPDI(ie.NewSourceInterface(ie.SrcInterfaceAccess), ie.NewFTEID(0x01, 5, net.ParseIP("198.18.0.1"), nil, 0), ie.NewUEIPAddress(0x02, "10.1.1.1", "", 0, 0), ie.NewSDFFilter("permit out ip from 8.8.8.0/24 80-82 to assigned", "", "", "", 1)), ie.NewOuterHeaderRemoval(0, 0), ie.NewFARID(1), ie.NewQERID(1)),
		ie.NewCreateFAR(ie.NewFARID(1), ie.NewApplyAction(2), ie.NewForwardingParameters(ie.NewDestinationInterface(ie.DstInterfaceCore))),
		ie.NewCreateQER(ie.NewQERID(1), ie.NewQFI(9), ie.NewGateStatus(0, 0), ie.NewMBR(1000, 2000), ie.NewGBR(0, 0)),
	)
	t1 := time.Now()
	r, ok = p.Exchange(sysh.Marshal(est), time.Second)
	fmt.Println("est", len(r), ok, time.Since(t1))
	for _, x := range r {
		m, err := message.Parse(x)
		fmt.Printf("%+v %v\n", m, err)
	}
	for _, l := range s.Bess.Snapshot() {
		fmt.Println(l)
	}
	fmt.Println(s.Stats())
	s.Kill()
	fmt.Println("exited:", s.Exited(), s.CrashInfo())
}
