package main

import (
	"verifharness/internal/sysh"
	"fmt"
	"strings"

	"github.com/omec-project/upf-epc/pfcpiface"
	"github.com/wmnsk/go-pfcp/ie"
)

func init() { props["C08"] = c08 }

func u32dot(v uint32) string { return fmt.Sprintf("%d.%d.%d.%d", v>>24, (v>>16)&255, (v>>8)&255, v&255) }

// safely runs f and reports a panic as text
func safely(f func()) (panicked string) {
	defer func() {
		if r := recover(); r != nil {
			panicked = strings.ReplaceAll(fmt.Sprint(r), " ", "_")
		}
	}()
	f()
	return ""
}

func c08Flow(c *ctx, class, flow, ue string) {
	var res *pfcpiface.VerifFlow
	var err error
	p := safely(func() { res, err = pfcpiface.VerifParseFlowDesc(flow, ue) })
	pre := fmt.Sprintf("fd %s %s =>", hexs(flow), hexs(ue))
	switch {
	case p != "":
		c.t.Case(class+"/panic", true, "%s panic %s", pre, p)
	case err != nil:
		c.t.Case(class+"/err", true, "%s err", pre)
	default:
		e := func(v pfcpiface.VerifEndpoint) string {
			return fmt.Sprintf("%d %d %d %d %d", b01(v.HasNet), v.IP, v.Mask, v.Low, v.High)
		}
		c.t.Case(class+"/ok", true, "%s ok %s %s %d %s %s", pre, hexs(res.Action), hexs(res.Direction), res.Proto, e(res.Src), e(res.Dst))
	}
}

func filterStr(f pfcpiface.VerifAppFilter) string {
	return fmt.Sprintf("%d %d %d %d %d %d %d %d %d %d", f.SrcIP, f.SrcIPMask, f.DstIP, f.DstIPMask, f.SrcLow, f.SrcHigh, f.DstLow, f.DstHigh, f.Proto, f.ProtoMask)
}

// c08PDR runs parsePDR on a Create PDR carrying source interface, UE address and either an SDF filter or an application ID.
func c08PDR(c *ctx, class string, srcIface uint8, ue uint32, sdf *string, app *string, table map[string][]string, order []string) {
	pdi := []*ie.IE{ie.NewSourceInterface(srcIface - 1)}
	if ue != 0 {
		pdi = append(pdi, ie.NewUEIPAddress(0x02, u32dot(ue), "", 0, 0))
	}
	if sdf != nil {
		pdi = append(pdi, ie.NewSDFFilter(*sdf, "", "", "", 1))
	}
	if app != nil {
		pdi = append(pdi, ie.NewApplicationID(*app))
	}
	cp := ie.NewCreatePDR(ie.NewPDRID(1), ie.NewPrecedence(10), ie.NewPDI(pdi...), ie.NewFARID(1))
	var res pfcpiface.VerifPDR
	var err error
	p := safely(func() { res, err = pfcpiface.VerifParsePDR(cp, 7, table, nil) })
	var pre string
	if sdf != nil {
		pre = fmt.Sprintf("sdf %d %d %s =>", srcIface, ue, hexs(*sdf))
	} else {
		var sb strings.Builder
		for _, id := range order {
			fmt.Fprintf(&sb, " %s %d", hexs(id), len(table[id]))
			for _, fd := range table[id] {
				sb.WriteString(" " + hexs(fd))
			}
		}
		pre = fmt.Sprintf("app %d %d %s %d%s =>", srcIface, ue, hexs(*app), len(order), sb.String())
	}
	switch {
	case p != "":
		c.t.Case(class+"/panic", true, "%s panic %s", pre, p)
	case err != nil:
		c.t.Case(class+"/rejected", true, "%s rejected", pre)
	default:
		c.t.Case(class+"/ok", true, "%s ok %s", pre, filterStr(res.Filter))
	}
}

type fdRule struct{ toks []string }

func c08(c *ctx) {
	actions := []string{"permit", "deny"}
	dirs := []string{"in", "out"}
	protos := []string{"ip", "tcp", "udp", "6", "17", "0", "1", "255", "256", "47"}
	plens := []int{0, 1, 8, 24, 31, 32}
	if c.thorough() {
		plens = nil
		for i := 0; i <= 32; i++ {
			plens = append(plens, i)
		}
	}
	addrs := []string{"any", "assigned", "8.8.8.8", "10.0.0.1", "255.255.255.255", "0.0.0.0"}
	for _, l := range plens {
		addrs = append(addrs, fmt.Sprintf("192.168.77.201/%d", l), fmt.Sprintf("10.20.30.40/%d", l))
	}
	ports := []string{"", "80", "0", "65535", "1-2", "80-80", "1000-1099", "1000-1100", "0-65535", "0-0", "443-8443"}
	ues := []string{"10.1.2.3", "0.0.0.0", "", "<nil>", "172.16.0.9"}
	var valid [][]string
	// grammar: every protocol form x address forms x port forms x both directions (a covering sample in quick, product in thorough)
	gen := func(a, d, p, sa, sp, da, dp string) []string {
		t := []string{a, d, p, "from", sa}
		if sp != "" {
			t = append(t, sp)
		}
		t = append(t, "to", da)
		if dp != "" {
			t = append(t, dp)
		}
		return t
	}
	for i, p := range protos {
		for j, sa := range addrs {
			for k, spt := range ports {
				// vary the remaining choices deterministically so that every pair (proto,addr), (addr,port) occurs
				da := addrs[(i+j+k)%len(addrs)]
				dp := ports[(i*3+j+2*k)%len(ports)]
				if !c.thorough() && (i+j+k)%3 != 0 {
					continue
				}
				valid = append(valid, gen(actions[(i+j)%2], dirs[(j+k)%2], p, sa, spt, da, dp))
				valid = append(valid, gen(actions[k%2], dirs[i%2], p, da, dp, sa, spt))
			}
		}
	}
	for _, t := range valid {
		for ui, ue := range ues {
			if ui > 0 && !containsTok(t, "assigned") {
				continue
			}
			c08Flow(c, "fd/grammar", strings.Join(t, " "), ue)
		}
	}
	c.extra["grammar_strings"] = len(valid)
	// every single-token corruption of a spread of valid strings: drop, duplicate, swap with neighbour, replace; truncation at each token
	repl := []string{"from", "to", "any", "assigned", "permit", "in", "x", "80", "1-2", "2-1", "65536", "1.2.3", "1.2.3.4/33", "1.2.3.4/", "/24", "300.1.1.1", "01.2.3.4", "1.2.3.4/08", "-", "80-", "ip", "::1/128", "fe80::1", "1.2.3.4/24/8", "+80", "0x50", "8０"}
	step := 7
	if c.thorough() {
		step = 1
	}
	for vi := 0; vi < len(valid); vi += step {
		t := valid[vi]
		ue := ues[vi%len(ues)]
		for i := range t {
			cut := append([]string{}, t[:i]...)
			c08Flow(c, "fd/truncated", strings.Join(cut, " "), ue)
			drop := append(append([]string{}, t[:i]...), t[i+1:]...)
			c08Flow(c, "fd/dropped", strings.Join(drop, " "), ue)
			dup := append(append(append([]string{}, t[:i+1]...), t[i]), t[i+1:]...)
			c08Flow(c, "fd/duplicated", strings.Join(dup, " "), ue)
			if i+1 < len(t) {
				sw := append([]string{}, t...)
				sw[i], sw[i+1] = sw[i+1], sw[i]
				c08Flow(c, "fd/swapped", strings.Join(sw, " "), ue)
			}
			r := append([]string{}, t...)
			r[i] = repl[(vi+i)%len(repl)]
			c08Flow(c, "fd/replaced", strings.Join(r, " "), ue)
		}
	}
	// token soup and white-space forms
	vocab := append([]string{"permit", "deny", "in", "out", "ip", "tcp", "from", "to", "any", "assigned", "1.2.3.4", "1.2.3.0/24", "80", "80-90"}, repl...)
	for i := 0; i < c.pick(1500, 150000); i++ {
		n := c.rng.Intn(11)
		t := make([]string, n)
		for j := range t {
			t[j] = vocab[c.rng.Intn(len(vocab))]
		}
		if n >= 3 && c.rng.Intn(3) > 0 {
			t[0], t[1], t[2] = actions[c.rng.Intn(2)], dirs[c.rng.Intn(2)], protos[c.rng.Intn(len(protos))]
		}
		sep := []string{" ", "  ", "\t", " \n", " ", "  "}[c.rng.Intn(6)]
		c08Flow(c, "fd/soup", strings.Join(t, sep), ues[c.rng.Intn(len(ues))])
	}
	for _, s := range []string{"", " ", "permit", "permit out", "permit out ip", "permit out ip from", "permit out ip from any", "permit out ip from any to", "permit out ip to", "permit out ip to any",
		"permit out ip from any 80", "permit out ip from any to assigned 80 90", "permit out ip from any to assigned from 1.1.1.1 to 2.2.2.2", "permit out ip bogus from any to any", "permit out ip from any to any trailing",
		"permit out ip from any to any 80 81 82", "PERMIT out ip from any to any", "permit OUT ip from any to any", "\tpermit\tout\tip\tfrom\tany\tto\tany\t"} {
		for _, ue := range ues[:2] {
			c08Flow(c, "fd/edge", s, ue)
		}
	}
	// PDR level: SDF filters on uplink and downlink PDRs
	nPDR := 0
	for vi, t := range valid {
		if !c.thorough() && vi%3 != 0 {
			continue
		}
		s := strings.Join(t, " ")
		for _, iface := range []uint8{1, 2} {
			ue := []uint32{0x0A010203, 0, 0xAC100009}[vi%3]
			c08PDR(c, "sdf/grammar", iface, ue, &s, nil, nil, nil)
			nPDR++
		}
	}
	for _, s := range []string{"", "permit out ip", "permit out ip from", "bogus", "permit out ip from any to", "permit out ip from 1.2.3.4/33 to any", "permit out ip from any 2-1 to any", "permit sideways ip from any to any", "allow out ip from any to any", "permit out ip from any to assigned 99999"} {
		s := s
		for _, iface := range []uint8{1, 2} {
			c08PDR(c, "sdf/malformed", iface, 0x0A010203, &s, nil, nil, nil)
		}
	}
	// PFD-backed application IDs: tables with several descriptions per application, both directions, malformed entries
	for i := 0; i < c.pick(600, 20000); i++ {
		table := map[string][]string{}
		var order []string
		napps := 1 + c.rng.Intn(3)
		for a := 0; a < napps; a++ {
			id := fmt.Sprintf("app%d", a)
			order = append(order, id)
			nfd := c.rng.Intn(4)
			for k := 0; k < nfd; k++ {
				var fd string
				switch c.rng.Intn(8) {
				case 0:
					fd = "permit out ip from"
				case 1:
					fd = "garbage"
				default:
					fd = strings.Join(valid[c.rng.Intn(len(valid))], " ")
				}
				table[id] = append(table[id], fd)
			}
			if table[id] == nil {
				table[id] = []string{}
			}
		}
		app := fmt.Sprintf("app%d", c.rng.Intn(napps+1)) // sometimes an unknown id
		iface := uint8(1 + c.rng.Intn(2))
		ue := []uint32{0x0A010203, 0}[c.rng.Intn(2)]
		c08PDR(c, "app", iface, ue, nil, &app, table, order)
	}
	c.extra["pdr_level_cases"] = nPDR
	c08system(c)
}

// c08system: PFD provisioning on a running agent — an accepted PFD Management Request replaces the application table of
// the association, a refused one leaves it exactly as it was; PDRs naming an application get its filter.
func c08system(c *ctx) {
	r := c.rng
	for rep := 0; rep < c.pick(3, 30); rep++ {
		w, err := newWorld(c, sysh.Opts{ReadTimeout: 600})
		if err != nil {
			panic(err)
		}
		w.cfgLine()
		if !w.start() {
			w.close()
			return
		}
		w.assoc(0)
		w.assoc(1)
		tables := [][]appPFD{
			{{ID: "app0", Fds: []string{"permit out ip from 8.8.4.0/24 to assigned"}}, {ID: "app1", Fds: []string{"permit in udp from any to 1.1.1.1 53", "permit out tcp from 9.9.9.9 443 to assigned"}}},
			{{ID: "app2", Fds: []string{"permit out udp from 10.20.0.0/16 53 to assigned"}}},
			{{ID: "app0", Fds: []string{"permit out tcp from 93.184.216.34 80 to assigned"}}},
			{}, // no Application ID's PFDs IE at all: the accepted request replaces the table by the empty one
		}
		use := func(a int) {
			for _, id := range []string{"app0", "app1", "app2", "app9"} {
				if r.Intn(3) == 0 {
					continue
				}
				pdrs, fars, qers := w.genSession(0)
				pdrs[1].App = strp(id)
				w.nextCP++
				if h, _ := w.est(a, w.nodes[a], w.nextCP, pdrs, fars, qers, "pfd-"+id); h != nil && r.Intn(2) == 0 {
					w.del(a, h.up, "pfd")
				}
			}
		}
		use(0) // nothing provisioned yet
		for step := 0; step < c.pick(6, 14); step++ {
			a := r.Intn(2)
			w.pfd(a, tables[r.Intn(len(tables))], r.Intn(3) == 0)
			use(a)
			if r.Intn(3) == 0 {
				use(1 - a) // the other association has its own table
			}
		}
		// provisioned, then a REJECTED request that re-provisions the same applications (its offending element belongs to an
		// application the table in force holds): the table in force stays whole
		w.pfd(0, tables[0], false)
		w.pfd(0, tables[0], true)
		w.pfd(0, []appPFD{tables[0][1], tables[0][0]}, true)
		for _, id := range []string{"app1", "app0"} {
			pdrs, fars, qers := w.genSession(0)
			pdrs[1].App = strp(id)
			w.nextCP++
			if h, _ := w.est(0, w.nodes[0], w.nextCP, pdrs, fars, qers, "pfd-after-rejected-"+id); h != nil {
				w.del(0, h.up, "pfd")
			}
		}
		// provisioned, then emptied: PDRs that name a formerly provisioned application must not get its filter any more
		w.pfd(0, tables[0], false)
		w.pfd(0, nil, false)
		for _, id := range []string{"app0", "app1"} {
			pdrs, fars, qers := w.genSession(0)
			pdrs[1].App = strp(id)
			w.nextCP++
			if h, _ := w.est(0, w.nodes[0], w.nextCP, pdrs, fars, qers, "pfd-after-empty-"+id); h != nil {
				w.del(0, h.up, "pfd")
			}
		}
		w.close()
	}
}

func containsTok(t []string, s string) bool {
	for _, x := range t {
		if x == s {
			return true
		}
	}
	return false
}
