package main

import (
	"fmt"
	"os"
	"time"

	"github.com/wmnsk/go-pfcp/ie"
	"github.com/wmnsk/go-pfcp/message"

	"verifharness/internal/sysh"
)

func init() { props["C12"] = c12 }

type txRec struct {
	at  time.Duration
	seq uint32
}

// watchHB observes the agent's Heartbeat Requests for at most d, answering according to answer(k, seq) where k counts
// the transmissions of the current sequence number (1-based). It returns all transmissions seen.
func watchHB(p *sysh.Peer, d time.Duration, start time.Time, answer func(k int, seq uint32) []message.Message, stop func(tx []txRec) bool) []txRec {
	return watchReq(p, message.MsgTypeHeartbeatRequest, d, start, answer, stop)
}

// watchReq: the same for any request type the agent originates
func watchReq(p *sysh.Peer, mtype uint8, d time.Duration, start time.Time, answer func(k int, seq uint32) []message.Message, stop func(tx []txRec) bool) []txRec {
	var tx []txRec
	count := map[uint32]int{}
	deadline := time.Now().Add(d)
	for time.Now().Before(deadline) {
		r, ok := p.Recv(20 * time.Millisecond)
		if !ok {
			if stop != nil && stop(tx) {
				break
			}
			continue
		}
		m, err := message.Parse(r)
		if err != nil || m.MessageType() != mtype {
			continue
		}
		count[m.Sequence()]++
		tx = append(tx, txRec{time.Since(start), m.Sequence()})
		for _, resp := range answer(count[m.Sequence()], m.Sequence()) {
			_ = p.SendRaw(sysh.Marshal(resp))
		}
	}
	return tx
}

func hbResp(seq uint32) message.Message {
	return message.NewHeartbeatResponse(seq, ie.NewRecoveryTimeStamp(time.Unix(1700000000, 0)))
}

func txJSON(tx []txRec) [][]int64 {
	out := [][]int64{}
	for _, t := range tx {
		out = append(out, []int64{t.at.Microseconds(), int64(t.seq)})
	}
	return out
}

func c12(c *ctx) {
	// ---- retransmission: answer the k-th transmission, or none
	for _, N := range []int{1, 2, 3} {
		rt := 80 * time.Millisecond
		iv := 250 * time.Millisecond
		w, err := newWorld(c, sysh.Opts{HB: true, HBInterval: iv.String(), RespTimeout: rt.String(), MaxRetries: N, ReadTimeout: 600})
		if err != nil {
			panic(err)
		}
		w.cfgLine()
		if !w.start() {
			w.close()
			return
		}
		for k := 0; k <= N+1 && os.Getenv("VERIF_C12_HBDUP") == ""; k++ { // k = 0: never answer
			if !c.thorough() && N == 3 && (k == 2 || k == 3) {
				continue
			}
			w.assoc(0)
			p := w.peers[0]
			pdrs, fars, qers := w.genSession(0)
			w.nextCP++
			h, _ := w.est(0, w.nodes[0], w.nextCP, pdrs, fars, qers, "c12")
			start := time.Now()
			var firstSeq uint32
			// phase 1: the first heartbeat series is answered at transmission k (or never)
			tx := watchHB(p, iv+time.Duration(N+2)*rt+300*time.Millisecond, start, func(n int, seq uint32) []message.Message {
				if firstSeq == 0 {
					firstSeq = seq
				}
				if seq == firstSeq && k != 0 && n == k {
					return []message.Message{hbResp(seq)}
				}
				return nil
			}, func(tx []txRec) bool {
				// stop early once the series is over: answered and a quiet period passed, or the next sequence number started
				return len(tx) > 0 && (tx[len(tx)-1].seq != firstSeq)
			})
			var series []txRec
			for _, t := range tx {
				if t.seq == firstSeq {
					series = append(series, t)
				}
			}
			// is the association still alive (a new series starts / heartbeat answered), are the sessions gone?
			time.Sleep(30 * time.Millisecond)
			w.quiesce()
			stillServed := false
			if k != 0 {
				_, stillServed = p.Exchange(sysh.Marshal(message.NewHeartbeatRequest(p.NextSeq(), ie.NewRecoveryTimeStamp(time.Unix(1700000000, 0)), nil)), w.wait)
			}
			nTables := 0
			if h != nil {
				for _, l := range w.s.Bess.Snapshot() {
					if containsSeid(l, h.up) {
						nTables++
					}
				}
			}
			w.emit("hbseries", true, map[string]interface{}{"k": "hbseries", "a": 0, "N": N, "rt_us": rt.Microseconds(), "iv_us": iv.Microseconds(), "answer": k,
				"obs": map[string]interface{}{"alive": !w.s.Exited(), "tx": txJSON(series), "served": stillServed, "session_entries": nTables, "tables": w.s.Bess.Snapshot()}})
			if k == 0 {
				p.Fresh = true
				for _, s := range w.sessions {
					s.dead = true
				}
			} else if h != nil {
				p.AnswerHB = true
				w.del(0, h.up, "c12")
				// end the association cleanly for the next round
				w.release(0)
			}
		}
		// late, duplicated and wrong-sequence responses: none of them may stop or wedge the exchange
		hbdupReps := 1
		if v := os.Getenv("VERIF_C12_HBDUP"); v != "" {
			fmt.Sscanf(v, "%d", &hbdupReps)
		}
		var p *sysh.Peer
		for rep := 0; rep < hbdupReps; rep++ {
		if rep > 0 {
			w.release(0)
		}
		w.assoc(0)
		p = w.peers[0]
		dpdrs, dfars, dqers := w.genSession(0)
		w.nextCP++
		dh, _ := w.est(0, w.nodes[0], w.nextCP, dpdrs, dfars, dqers, "c12")
		start := time.Now()
		var firstSeq uint32
		tx := watchHB(p, 2*iv+time.Duration(2*N+3)*rt+200*time.Millisecond, start, func(n int, seq uint32) []message.Message {
			if firstSeq == 0 {
				firstSeq = seq
			}
			if seq != firstSeq {
				return []message.Message{hbResp(seq)} // the following series is answered at once
			}
			switch n {
			case 1:
				return []message.Message{hbResp(seq + 1), hbResp(seq - 1), hbResp(0)} // wrong sequence numbers only
			default:
				return []message.Message{hbResp(seq), hbResp(seq), hbResp(seq)} // the answer, duplicated
			}
		}, func(tx []txRec) bool { return len(tx) > 0 && tx[len(tx)-1].seq > firstSeq+1 })
		var series, next []txRec
		for _, t := range tx {
			if t.seq == firstSeq {
				series = append(series, t)
			}
			if t.seq == firstSeq+1 {
				next = append(next, t)
			}
		}
		p.AnswerHB = true
		_, served := p.Exchange(sysh.Marshal(message.NewHeartbeatRequest(p.NextSeq(), ie.NewRecoveryTimeStamp(time.Unix(1700000000, 0)), nil)), w.wait)
		// the association must still be the same one: its session is still known
		delCause := -1
		if dh != nil {
			delCause = int(w.del(0, dh.up, "c12-after-duplicates").Cause)
		}
		w.emit("hbdup", true, map[string]interface{}{"k": "hbdup", "a": 0, "N": N, "rt_us": rt.Microseconds(),
			"obs": map[string]interface{}{"alive": !w.s.Exited(), "tx": txJSON(series), "next_tx": txJSON(next), "served": served, "del_cause": delCause}})
		}
		// peer heartbeats: answered at any time with a constant Recovery Time Stamp; they postpone the agent's own heartbeat
		var stamps []int64
		quiet := time.Now()
		var agentTx []txRec
		for i := 0; i < 8; i++ {
			seq := p.NextSeq()
			_ = p.SendRaw(sysh.Marshal(message.NewHeartbeatRequest(seq, ie.NewRecoveryTimeStamp(time.Unix(1700000000, 0)), nil)))
			deadline := time.Now().Add(100 * time.Millisecond)
			for time.Now().Before(deadline) {
				r, ok := p.Recv(time.Until(deadline))
				if !ok {
					break
				}
				m, err := message.Parse(r)
				if err != nil {
					continue
				}
				if hr, ok := m.(*message.HeartbeatResponse); ok && m.Sequence() == seq && hr.RecoveryTimeStamp != nil {
					ts, _ := hr.RecoveryTimeStamp.RecoveryTimeStamp()
					stamps = append(stamps, ts.Unix())
				}
				if m.MessageType() == message.MsgTypeHeartbeatRequest {
					agentTx = append(agentTx, txRec{time.Since(quiet), m.Sequence()})
					_ = p.SendRaw(sysh.Marshal(hbResp(m.Sequence())))
				}
			}
		}
		span := time.Since(quiet)
		w.emit("peerhb", true, map[string]interface{}{"k": "peerhb", "a": 0, "iv_us": iv.Microseconds(),
			"obs": map[string]interface{}{"alive": !w.s.Exited(), "stamps": stamps, "agent_tx_during": txJSON(agentTx), "span_us": span.Microseconds()}})
		w.close()
	}
	// ---- the agent's own Association Setup Request towards a configured peer: answered at transmission k with an accepting, a rejecting
	// or an incomplete response, or never; it is transmitted at most 1 + N times, spaced by resp_timeout, with one sequence number, and
	// no further transmission follows a response with that sequence number - whatever the response says
	for _, sc := range []struct {
		name string
		N, k int // k = 0: never answered
	}{{"accept", 2, 1}, {"accept", 2, 2}, {"reject", 3, 1}, {"reject", 2, 2}, {"no-cause", 3, 1}, {"never", 2, 0}, {"accept", 1, 2},
		{"never-max-retries", 255, 0}} { // the largest value the configuration can carry (a uint8)
		if !c.thorough() && sc.name == "accept" && sc.N == 1 {
			continue
		}
		rt := 80 * time.Millisecond
		quiet := 3*rt + rt/2
		if sc.N > 100 {
			rt = 4 * time.Millisecond // 256 transmissions in about a second; spacing is not judged at this resolution
			quiet = 400 * time.Millisecond
		}
		w, err := newWorld(c, sysh.Opts{RespTimeout: rt.String(), MaxRetries: sc.N, ReadTimeout: 600, Peers: []string{"127.0.12.1"}})
		if err != nil {
			panic(err)
		}
		p0, err := w.s.NewPeerAt("127.0.12.1", 8805)
		if err != nil {
			w.emit("assocseries/skipped", false, map[string]interface{}{"k": "note", "msg": "127.0.0.1:8805 is not available: " + err.Error()})
			w.close()
			continue
		}
		w.cfgLine()
		start := time.Now()
		// the peer listens before the agent starts, so that every transmission is time-stamped when it arrives
		txCh := make(chan []txRec, 1)
		go func() {
			txCh <- watchReq(p0, message.MsgTypeAssociationSetupRequest, 5*time.Second+time.Duration(sc.N+3)*rt, start, func(n int, seq uint32) []message.Message {
				if sc.k == 0 || n != sc.k {
					return nil
				}
				switch sc.name {
				case "reject":
					return []message.Message{message.NewAssociationSetupResponse(seq, ie.NewNodeID(p0.Addr, "", ""), ie.NewCause(ie.CauseRequestRejected),
						ie.NewRecoveryTimeStamp(time.Unix(1700000000, 0)))}
				case "no-cause":
					return []message.Message{message.NewAssociationSetupResponse(seq, ie.NewNodeID(p0.Addr, "", ""), ie.NewRecoveryTimeStamp(time.Unix(1700000000, 0)))}
				}
				return []message.Message{message.NewAssociationSetupResponse(seq, ie.NewNodeID(p0.Addr, "", ""), ie.NewCause(ie.CauseRequestAccepted),
					ie.NewRecoveryTimeStamp(time.Unix(1700000000, 0)))}
			}, func(tx []txRec) bool {
				// over once the series has had time to finish: (N+1) transmissions, or a quiet period of 3.5 x resp_timeout after the last one
				return len(tx) > 0 && (len(tx) > sc.N+1 || time.Since(start)-tx[len(tx)-1].at > quiet)
			})
		}()
		if !w.start() {
			w.close()
			return
		}
		tx := <-txCh
		// an accepted association serves requests; a rejected, incomplete or unanswered one is gone
		served := false
		if len(tx) > 0 {
			_, served = p0.Exchange(sysh.Marshal(message.NewHeartbeatRequest(p0.NextSeq(), ie.NewRecoveryTimeStamp(time.Unix(1700000000, 0)), nil)), 400*time.Millisecond)
		}
		w.emit("assocseries/"+sc.name, true, map[string]interface{}{"k": "assocseries", "kind": sc.name, "N": sc.N, "rt_us": rt.Microseconds(), "answer": sc.k, "nogaps": sc.N > 100,
			"obs": map[string]interface{}{"alive": !w.s.Exited(), "tx": txJSON(tx), "served": served}})
		p0.Close()
		w.close()
	}
	// ---- a peer Heartbeat Request that arrives WHILE one of the agent's own heartbeats is outstanding (first transmission lost, the
	// retransmission answered a little later) postpones the agent's next heartbeat like any other
	for rep := 0; rep < c.pick(1, 4); rep++ {
		iv, rt := 800*time.Millisecond, 200*time.Millisecond
		w, err := newWorld(c, sysh.Opts{HB: true, HBInterval: iv.String(), RespTimeout: rt.String(), MaxRetries: 3, ReadTimeout: 600})
		if err != nil {
			panic(err)
		}
		w.cfgLine()
		if !w.start() {
			w.close()
			return
		}
		w.assoc(0)
		p := w.peers[0]
		p.AnswerHB = false
		start := time.Now()
		var firstSeq uint32
		var tPeer time.Duration
		tx := watchHB(p, 3*iv+4*rt, start, func(n int, seq uint32) []message.Message {
			if firstSeq == 0 {
				firstSeq = seq
			}
			if seq != firstSeq {
				return []message.Message{hbResp(seq)}
			}
			if n == 2 {
				time.Sleep(100 * time.Millisecond)
				tPeer = time.Since(start)
				_ = p.SendRaw(sysh.Marshal(message.NewHeartbeatRequest(p.NextSeq(), ie.NewRecoveryTimeStamp(time.Unix(1700000000, 0)), nil)))
				time.Sleep(20 * time.Millisecond)
				return []message.Message{hbResp(seq)}
			}
			return nil
		}, func(tx []txRec) bool { return len(tx) > 0 && tx[len(tx)-1].seq != firstSeq })
		gap := int64(-1)
		for _, t := range tx {
			if t.seq != firstSeq && tPeer > 0 {
				gap = (t.at - tPeer).Microseconds()
				break
			}
		}
		w.emit("peerhb-outstanding", true, map[string]interface{}{"k": "peerhbout", "a": 0, "iv_us": iv.Microseconds(),
			"obs": map[string]interface{}{"alive": !w.s.Exited(), "tx": txJSON(tx), "gap_us": gap, "peer_sent": tPeer > 0}})
		w.close()
	}
	// ---- association setup: accepted iff the datapath is connected; advertised features follow the configuration
	for _, cf := range []struct{ ueip, em bool }{{false, false}, {true, false}, {false, true}, {true, true}} {
		w, err := newWorld(c, sysh.Opts{UEAlloc: cf.ueip, Pool: "10.250.0.0/24", EndMarker: cf.em, ReadTimeout: 600})
		if err != nil {
			panic(err)
		}
		w.cfgLine()
		if !w.start() {
			w.close()
			return
		}
		for round := 0; round < 2; round++ {
			if round == 1 {
				// the datapath goes away: the gRPC connection leaves READY
				w.s.Bess.Stop()
				for i := 0; i < 100; i++ {
					if st := w.s.Stats(); st != nil && st["connected"] == 0 {
						break
					}
					time.Sleep(20 * time.Millisecond)
				}
			}
			before := w.s.Stats()
			p, _ := w.s.NewPeer(true)
			seq := p.NextSeq()
			replies, barrier := p.Exchange(sysh.Marshal(message.NewAssociationSetupRequest(seq, ie.NewNodeID(p.Addr, "", ""), ie.NewRecoveryTimeStamp(time.Unix(1700000000, 0)))), w.wait)
			after := w.s.Stats()
			cause, feats := -1, []int{}
			for _, r := range replies {
				if m, err := message.Parse(r); err == nil {
					if ar, ok := m.(*message.AssociationSetupResponse); ok {
						if ar.Cause != nil {
							cv, _ := ar.Cause.Cause()
							cause = int(cv)
						}
						if ar.UPFunctionFeatures != nil {
							for _, b := range ar.UPFunctionFeatures.Payload {
								feats = append(feats, int(b))
							}
						}
					}
				}
			}
			conn := -1
			if before != nil && after != nil && before["connected"] == after["connected"] {
				conn = before["connected"]
			}
			w.emit("assocfeat", true, map[string]interface{}{"k": "assocfeat", "ueip": cf.ueip, "em": cf.em, "connected": conn,
				"obs": map[string]interface{}{"alive": !w.s.Exited() && barrier, "n": len(replies), "cause": cause, "features": feats}})
			p.Close()
		}
		w.close()
	}
}

func containsSeid(l string, seid uint64) bool {
	s := "," + itoa(seid)
	for i := 0; i+len(s) <= len(l); i++ {
		if l[i:i+len(s)] == s && (i+len(s) == len(l) || l[i+len(s)] == ',' || l[i+len(s)] == '|') {
			return true
		}
	}
	return false
}

func itoa(v uint64) string {
	if v == 0 {
		return "0"
	}
	var b [20]byte
	i := len(b)
	for v > 0 {
		i--
		b[i] = byte('0' + v%10)
		v /= 10
	}
	return string(b[i:])
}
