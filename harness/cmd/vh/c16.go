package main

import (
	"bytes"
	"os"
	"os/exec"
	"path/filepath"

	"verifharness/internal/sysh"
)

func init() { props["C16"] = c16 }

// c16: (1) the repository's constants generator, run several times on the shipped P4Info, is compared byte for byte
// (after gofmt, as the repository's make target does) with the committed constants; (2) rule combinations at the
// boundaries of every field reach the UP4 plug-in, and every Write they cause is logged for validation against the P4Info.
func c16(c *ctx) {
	c16generator(c)
	// ---- start-up writes (interfaces table) for access addresses and UE pools configured with host bits under a short prefix:
	// an LPM match value carries no bit beyond its prefix length
	for _, cf := range [][2]string{{"198.18.0.1/24", "10.60.0.0/16"}, {"198.18.7.9/16", "10.61.0.0/20"}, {"198.18.0.1/31", "10.62.0.0/24"}} {
		w, err := newWorld(c, sysh.Opts{P4: true, P4Access: cf[0], Pool: cf[1], P4DefaultTC: 3})
		if err != nil {
			panic(err)
		}
		w.cfgLine()
		w.start()
		w.close()
	}
	r := c.rng
	slices := []int{0, 15, 7, 1}
	for k := 0; k < c.pick(4, 16); k++ {
		o := sysh.Opts{P4: true, Pool: "10.60.0.0/16", P4Slice: slices[k%4], P4DefaultTC: k % 4, P4QfiTC: map[string]int{"9": (k + 1) % 4, "63": 3, "0": 0, "5": 2}}
		w, err := newWorld(c, o)
		if err != nil {
			panic(err)
		}
		w.cfgLine()
		if !w.start() {
			w.close()
			return
		}
		w.assoc(0)
		precs := []uint32{0, 1, 65534, 65535, 32768, 255, 256}
		if c.thorough() {
			// a sweep through the precedence range (every priority value matters only at the boundaries, which are above)
			for i := 0; i < 48; i++ {
				precs = append(precs, uint32(r.Intn(65536)))
			}
		}
		teids := []uint32{1, 0xFFFFFFFF, 0x80000000, 12345}
		qfis := []uint8{0, 9, 63, 1, 32}
		n := 0
		for _, prec := range precs {
			for fi := 0; fi < len(sdfPool); fi++ {
				if !c.thorough() && (n+k)%3 != 0 {
					n++
					continue
				}
				n++
				ue := w.nextUE
				w.nextUE++
				teid := teids[r.Intn(len(teids))] ^ uint32(n<<8)
				if teid == 0 {
					teid = 5
				}
				gnb := []uint32{0xC6120100, 0xFFFFFFFE, 0x01000001}[r.Intn(3)]
				ul := sysh.PdrIE{ID: 1, Prec: prec, Src: u8p(0), Teid: u32p3(0, teid, n3IP), UE: u32p2(2, ue), Ohr: u8p(0), Far: 1, Sdf: strp(sdfPool[fi])}
				dl := sysh.PdrIE{ID: 2, Prec: precs[r.Intn(len(precs))], Src: u8p(1), UE: u32p2(2, ue), Far: 2, Sdf: strp(sdfPool[(fi+r.Intn(3))%len(sdfPool)])}
				fars := []sysh.FarIE{{ID: 1, Act: uint8(1 + r.Intn(2)), Fwd: &sysh.FwdIE{Dst: u8p(1)}},
					{ID: 2, Act: []uint8{2, 2, 1, 0x0C, 0x04}[r.Intn(5)], Fwd: &sysh.FwdIE{Dst: u8p(0), Ohc: u32p2(teids[r.Intn(len(teids))], gnb)}}}
				mbr := []uint64{0, 1, 7, 1000, 1<<40 - 1, 1 << 32}[r.Intn(6)]
				q := func(id uint32) sysh.QerIE {
					return sysh.QerIE{ID: id, Qfi: qfis[r.Intn(len(qfis))], Mbr: [2]uint64{mbr, mbr / 2}, Gbr: [2]uint64{mbr / 4, 0}, Gate: [2]uint8{uint8(r.Intn(2)), uint8(r.Intn(2))}}
				}
				var qers []sysh.QerIE
				switch r.Intn(3) {
				case 0:
					ul.Qers, dl.Qers = []uint32{1, 4}, []uint32{2, 4}
					qers = []sysh.QerIE{q(1), q(2), q(4)}
				case 1:
					ul.Qers, dl.Qers = []uint32{1}, []uint32{1}
					qers = []sysh.QerIE{q(1)}
				}
				w.nextCP++
				h, _ := w.est(0, w.nodes[0], w.nextCP, []sysh.PdrIE{ul, dl}, fars, qers, "c16")
				if h != nil {
					if r.Intn(2) == 0 && len(qers) > 0 {
						qq := q(qers[0].ID)
						w.mod(0, h.up, modReq{uq: []sysh.QerIE{qq}}, "c16-qer")
					}
					if r.Intn(2) == 0 {
						f := fars[1]
						f.Act = []uint8{2, 0x0C}[r.Intn(2)]
						w.mod(0, h.up, modReq{uf: []sysh.FarIE{f}}, "c16-far")
					}
					w.del(0, h.up, "c16")
				}
			}
		}
		w.close()
	}
	// ---- the boundary of the counter array: a pipeline with 6 counter cells, three sessions of two PDRs each hold all of them at
	// once (every cell index the agent can ever hand out is written), a fourth is refused; then all are deleted and it repeats
	{
		o := sysh.Opts{P4: true, Pool: "10.60.0.0/16", P4DefaultTC: 3, P4CtrSize: 6}
		w, err := newWorld(c, o)
		if err != nil {
			panic(err)
		}
		w.cfgLine()
		if w.start() {
			w.assoc(0)
			for round := 0; round < c.pick(2, 6); round++ {
				var hs []*hsess
				for k := 0; k < 4; k++ {
					ue := w.nextUE
					w.nextUE++
					teid := uint32(7000 + 10*k + 100*round)
					ul := sysh.PdrIE{ID: 1, Prec: 100, Src: u8p(0), Teid: u32p3(0, teid, n3IP), UE: u32p2(2, ue), Ohr: u8p(0), Far: 1}
					dl := sysh.PdrIE{ID: 2, Prec: 100, Src: u8p(1), UE: u32p2(2, ue), Far: 2}
					fars := []sysh.FarIE{{ID: 1, Act: 2, Fwd: &sysh.FwdIE{Dst: u8p(1)}}, {ID: 2, Act: 2, Fwd: &sysh.FwdIE{Dst: u8p(0), Ohc: u32p2(teid+1, 0xC6120100)}}}
					w.nextCP++
					if h, _ := w.est(0, w.nodes[0], w.nextCP, []sysh.PdrIE{ul, dl}, fars, nil, "c16-full-counter"); h != nil {
						hs = append(hs, h)
					}
				}
				for _, h := range hs {
					w.del(0, h.up, "c16-full-counter")
				}
			}
		}
		w.close()
	}
}

func c16generator(c *ctx) {
	repo := os.Getenv("VERIF_REPO")
	if repo == "" {
		repo = "/repo"
	}
	work := os.Getenv("VERIF_WORK")
	if work == "" {
		work = os.TempDir()
	}
	dir, err := os.MkdirTemp(work, "p4gen")
	if err != nil {
		panic(err)
	}
	defer os.RemoveAll(dir)
	ev := map[string]interface{}{"k": "gen"}
	bin := filepath.Join(dir, "p4gen")
	build := exec.Command("go", "build", "-o", bin, "./cmd/p4info_code_gen")
	build.Dir = repo
	if out, err := build.CombinedOutput(); err != nil {
		ev["error"] = "generator does not build: " + string(out)
		emitRaw(c, ev)
		return
	}
	committed, err := os.ReadFile(filepath.Join(repo, "internal/p4constants/p4constants.go"))
	if err != nil {
		ev["error"] = err.Error()
		emitRaw(c, ev)
		return
	}
	runs := c.pick(12, 60)
	var first []byte
	identical, equals := true, true
	diffAt := ""
	for i := 0; i < runs; i++ {
		out := filepath.Join(dir, "out.go")
		cmd := exec.Command(bin, "-output", out, "-p4info", filepath.Join(repo, "conf/p4/bin/p4info.txt"))
		cmd.Dir = repo
		if o, err := cmd.CombinedOutput(); err != nil {
			ev["error"] = "generator failed: " + string(o)
			emitRaw(c, ev)
			return
		}
		fm := exec.Command("gofmt", out)
		b, err := fm.Output()
		if err != nil {
			ev["error"] = "gofmt: " + err.Error()
			emitRaw(c, ev)
			return
		}
		if first == nil {
			first = b
		} else if !bytes.Equal(first, b) {
			identical = false
		}
		if !bytes.Equal(b, committed) && diffAt == "" {
			equals = false
			la, lb := bytes.Split(b, []byte("\n")), bytes.Split(committed, []byte("\n"))
			for j := 0; j < len(la) && j < len(lb); j++ {
				if !bytes.Equal(la[j], lb[j]) {
					diffAt = "line " + itoa(uint64(j+1)) + ": generated `" + string(la[j]) + "`, committed `" + string(lb[j]) + "`"
					break
				}
			}
			if diffAt == "" {
				diffAt = "lengths differ"
			}
		}
	}
	ev["runs"], ev["identical"], ev["equals_committed"], ev["diff"] = runs, identical, equals, diffAt
	emitRaw(c, ev)
}

func emitRaw(c *ctx, ev map[string]interface{}) {
	w := &world{c: c}
	w.emit("generator", true, ev)
}
