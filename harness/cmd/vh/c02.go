package main

import (
	"time"

	"github.com/wmnsk/go-pfcp/ie"
	"github.com/wmnsk/go-pfcp/message"

	"verifharness/internal/sysh"
)

func init() { props["C02"] = c02 }

var seqClasses = []uint32{1, 2, 1 << 23, 1<<24 - 1, 0x123456, 0xABCDEF, 255, 256, 65535, 65536}

func c02(c *ctx) {
	w, err := newWorld(c, sysh.Opts{UEAlloc: true, Pool: "10.250.0.0/24", ReadTimeout: 600})
	if err != nil {
		panic(err)
	}
	defer w.close()
	w.cfgLine()
	if !w.start() {
		return
	}
	r := c.rng
	pickSeq := func() {
		if r.Intn(3) > 0 {
			w.seqNext = seqClasses[r.Intn(len(seqClasses))]
			if r.Intn(4) == 0 {
				w.seqNext = uint32(1 + r.Intn(1<<24-1))
			}
		}
	}
	// heartbeat before any association, on two peers
	w.hb(0)
	w.hb(1)
	w.assoc(0)
	w.assoc(1)
	rounds := c.pick(300, 5000)
	for i := 0; i < rounds; i++ {
		a := r.Intn(3)
		for len(w.peers) <= a {
			w.hb(len(w.peers))
		}
		var live []*hsess
		for _, s := range w.sessions {
			if !s.dead && s.a == a {
				live = append(live, s)
			}
		}
		pickSeq()
		switch k := r.Intn(20); {
		case k < 2:
			w.hb(a)
		case k < 3:
			w.assoc(a) // also on an association that exists already
		case k < 4:
			apps := []appPFD{{ID: "app0", Fds: []string{"permit out ip from 8.8.4.0/24 to assigned"}}, {ID: "app1", Fds: []string{"permit in udp from any to 1.1.1.1 53", "permit out tcp from 9.9.9.9 443 to any"}}}
			w.pfd(a, apps[:1+r.Intn(2)], r.Intn(4) == 0)
		case k < 9:
			pdrs, fars, qers := w.genSession(r.Intn(8))
			if r.Intn(12) == 0 && len(pdrs) == 2 { // (with a third PDR the two downlink rules would get the same match key)
				// a flow description naming an IPv6 network: whatever the agent makes of it, the request is answered once
				pdrs[len(pdrs)-1].Sdf = strp([]string{"permit out ip from 2001:db8:a0b:12f0::1/64 to assigned", "permit out tcp from 2001:db8::/32 80 to assigned"}[r.Intn(2)])
			}
			w.nextCP++
			node := w.nodes[a]
			if r.Intn(8) == 0 {
				node = "198.51.100.250" // not the associated node: rejected
			}
			w.est(a, node, w.nextCP, pdrs, fars, qers, "c02")
		case k < 12:
			if len(live) == 0 {
				w.mod(a, uint64(r.Int63()), modReq{}, "unknown")
				continue
			}
			s := live[r.Intn(len(live))]
			var m modReq
			switch r.Intn(4) {
			case 0:
				w.nextCP++
				m.cpf = &[2]uint64{w.nextCP, 0x0A000001}
			case 1:
				m.uf = []sysh.FarIE{s.fars[0]}
			case 2:
				m.rp = []uint32{77} // unknown Remove ID: rejected
			}
			if w.mod(a, s.up, m, "c02").Cause == 1 && m.cpf != nil {
				s.cp = m.cpf[0]
			}
		case k < 14:
			if len(live) == 0 {
				w.del(a, uint64(r.Int63()), "unknown")
				continue
			}
			s := live[r.Intn(len(live))]
			if w.del(a, s.up, "c02").Cause == 1 {
				s.dead = true
			}
		case k < 15:
			// a session of ANOTHER association addressed on this one: unknown here
			for _, s := range w.sessions {
				if !s.dead && s.a != a {
					if r.Intn(2) == 0 {
						w.del(a, s.up, "foreign")
					} else {
						w.mod(a, s.up, modReq{}, "foreign")
					}
					break
				}
			}
		case k < 16:
			if a == 2 || r.Intn(3) == 0 {
				w.release(a)
				w.assoc(a)
			}
		default:
			// response-type messages are never answered
			p := w.peers[a]
			seq := w.seq(p)
			var m message.Message
			switch r.Intn(7) {
			case 0:
				m = message.NewHeartbeatResponse(seq, ie.NewRecoveryTimeStamp(time.Unix(1700000000, 0)))
			case 1:
				m = message.NewAssociationSetupResponse(seq, ie.NewNodeID(p.Addr, "", ""), ie.NewCause(ie.CauseRequestAccepted), ie.NewRecoveryTimeStamp(time.Unix(1700000000, 0)))
			case 2:
				m = message.NewSessionReportResponse(0, 0, uint64(r.Int63()), seq, 0, ie.NewCause(ie.CauseRequestAccepted))
			case 3:
				m = message.NewSessionEstablishmentResponse(0, 0, 5, seq, 0, ie.NewNodeID(p.Addr, "", ""), ie.NewCause(ie.CauseRequestAccepted))
			case 4:
				m = message.NewAssociationReleaseResponse(seq, ie.NewNodeID(p.Addr, "", ""), ie.NewCause(ie.CauseRequestAccepted))
			case 5:
				m = message.NewPFDManagementResponse(seq, ie.NewCause(ie.CauseRequestAccepted), nil)
			default:
				m = message.NewSessionDeletionResponse(0, 0, 9, seq, 0, ie.NewCause(ie.CauseRequestAccepted))
			}
			w.resp(a, m)
		}
	}
	// heartbeats with the agent's own heartbeat timer enabled: many of them before an association exists
	// (nothing drains the timer-reset channel yet) and after; every single one must be answered
	w2, err := newWorld(c, sysh.Opts{HB: true, HBInterval: "60s", RespTimeout: "1s", MaxRetries: 1, ReadTimeout: 600})
	if err != nil {
		panic(err)
	}
	defer w2.close()
	w2.cfgLine()
	if !w2.start() {
		return
	}
	flood := func() {
		bad := 0
		for i := 0; i < c.pick(130, 400) && bad < 3; i++ {
			if o := w2.hb(0); !o.Alive || o.N != 1 {
				bad++ // a few witnesses are enough; every unanswered request costs the full wait
			}
		}
	}
	flood()
	w2.assoc(0)
	flood()
	// the peer answers each of the agent's own heartbeats twice (a duplicated response is harmless by the protocol):
	// every later request on the association still gets its one response
	w3, err := newWorld(c, sysh.Opts{HB: true, HBInterval: "150ms", RespTimeout: "400ms", MaxRetries: 3, ReadTimeout: 600})
	if err != nil {
		panic(err)
	}
	defer w3.close()
	w3.cfgLine()
	if !w3.start() {
		return
	}
	w3.assoc(0)
	w3.peers[0].AnswerHB, w3.peers[0].DupHB = true, true
	for round := 0; round < c.pick(3, 12); round++ {
		w3.peers[0].Idle(400 * time.Millisecond)
		if o := w3.hb(0); !o.Alive {
			break
		}
		pdrs, fars, qers := w3.genSession(0)
		w3.nextCP++
		if h, _ := w3.est(0, w3.nodes[0], w3.nextCP, pdrs, fars, qers, "after-duplicate-response"); h != nil {
			w3.del(0, h.up, "after-duplicate-response")
		}
	}
}
