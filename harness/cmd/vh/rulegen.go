package main

import (
	"fmt"

	"verifharness/internal/sysh"
)

var sdfPool = []string{
	"permit out ip from any to assigned",
	"permit out ip from 8.8.8.0/24 to assigned",
	"permit out tcp from 93.184.216.34 80 to assigned",
	"permit out udp from 10.20.0.0/16 53 to assigned",
	"permit out 17 from 192.0.2.0/25 5000-5003 to assigned",
	"permit out tcp from any 443 to assigned",
	"permit out ip from 198.51.100.7/32 to assigned 8080",
	"permit out tcp from 203.0.113.0/24 1000-1099 to assigned",
	"deny out ip from 100.64.0.0/10 to assigned",
	"permit out 6 from 0.0.0.0/0 22 to assigned",
}

var precedences = []uint32{0, 1, 100, 255, 256, 65534, 65535, 65536, 1 << 31, 1<<32 - 1}

const n3IP = 0xC6120001 // 198.18.0.1

func u32p3(a, b, c uint32) *[3]uint32 { return &[3]uint32{a, b, c} }
func u32p2(a, b uint32) *[2]uint32    { return &[2]uint32{a, b} }

// genSession draws the rules of a new session. Keys (UE address, TEID) are fresh, so distinct live PDRs have distinct match keys.
func (w *world) genSession(shape int) ([]sysh.PdrIE, []sysh.FarIE, []sysh.QerIE) {
	r := w.c.rng
	ue := w.nextUE
	w.nextUE++
	teid := w.nextTEID
	w.nextTEID += 3
	gnb := uint32(0xC6120100) + uint32(r.Intn(4))
	prec := func() uint32 { return precedences[r.Intn(len(precedences))] }
	ul := sysh.PdrIE{ID: 1, Prec: prec(), Src: u8p(0), Teid: u32p3(0, teid, n3IP), UE: u32p2(2, ue), Ohr: u8p(0), Far: 1}
	dl := sysh.PdrIE{ID: 2, Prec: prec(), Src: u8p(1), UE: u32p2(2, ue), Far: 2}
	farUL := sysh.FarIE{ID: 1, Act: 2, Fwd: &sysh.FwdIE{Dst: u8p(1)}}
	farDL := sysh.FarIE{ID: 2, Act: 2, Fwd: &sysh.FwdIE{Dst: u8p(0), Ohc: u32p2(teid+1, gnb)}}
	q := func(id uint32, mbr uint64) sysh.QerIE {
		dl := mbr * 2
		if dl >= 1<<40 {
			dl = 1<<40 - 1
		}
		return sysh.QerIE{ID: id, Qfi: uint8([]int{9, 5, 1, 0, 63, 8}[r.Intn(6)]), Mbr: [2]uint64{mbr, dl}, Gbr: [2]uint64{0, 0}}
	}
	pdrs := []sysh.PdrIE{ul, dl}
	fars := []sysh.FarIE{farUL, farDL}
	var qers []sysh.QerIE
	switch shape % 8 {
	case 0: // two application QERs and one shared by every PDR
		pdrs[0].Qers, pdrs[1].Qers = []uint32{1, 4}, []uint32{2, 4}
		qers = []sysh.QerIE{q(1, 1000), q(2, 2000), q(4, 50000)}
	case 1: // SDF filters on both
		pdrs[0].Sdf, pdrs[1].Sdf = strp(sdfPool[r.Intn(len(sdfPool))]), strp(sdfPool[r.Intn(len(sdfPool))])
		pdrs[0].Qers, pdrs[1].Qers = []uint32{1}, []uint32{1}
		qers = []sysh.QerIE{q(1, uint64(r.Intn(5000)))}
	case 2: // UP-chosen F-TEID; UP-allocated UE address when the pool is enabled
		pdrs[0].Teid = u32p3(1, 0, 0)
		if w.s.Opts.UEAlloc {
			pdrs[1].UE = u32p2(0x10, 0)
			pdrs[0].UE = nil
		}
	case 3: // downlink buffers and notifies; no QER
		fars[1] = sysh.FarIE{ID: 2, Act: 0x0C}
	case 4: // a third PDR with an SDF filter and its own FAR (drop), QER lists in another order
		p3 := sysh.PdrIE{ID: 3, Prec: prec(), Src: u8p(1), UE: u32p2(2, ue), Sdf: strp(sdfPool[1+r.Intn(len(sdfPool)-1)]), Far: 3, Qers: []uint32{4, 3}}
		pdrs = append(pdrs, p3)
		fars = append(fars, sysh.FarIE{ID: 3, Act: 1})
		pdrs[0].Qers, pdrs[1].Qers = []uint32{4, 1}, []uint32{4, 2}
		qers = []sysh.QerIE{q(4, 9000), q(1, 100), q(2, 200), q(3, 300)}
	case 5: // closed gates, GBR, rates at boundaries
		pdrs[0].Qers, pdrs[1].Qers = []uint32{1}, []uint32{2}
		q1 := q(1, []uint64{0, 1, 7, 8, 1<<40 - 1}[r.Intn(5)])
		q1.Gate = [2]uint8{uint8(r.Intn(2)), uint8(r.Intn(2))}
		q2 := q(2, 4000)
		q2.Gbr = [2]uint64{uint64(r.Intn(3)) * 1000, uint64(r.Intn(3)) * 500}
		qers = []sysh.QerIE{q1, q2}
	case 6: // uplink only
		pdrs = pdrs[:1]
		fars = fars[:1]
	case 7: // application ID on the downlink PDR (filter ignored unless provisioned), forward to SGi-LAN style interface
		pdrs[1].App = strp(fmt.Sprintf("app%d", r.Intn(3)))
		fars[0].Fwd.Dst = u8p(2)
	}
	return pdrs, fars, qers
}
