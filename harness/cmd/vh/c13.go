package main

import (
	"fmt"
	"strings"
	"time"

	"github.com/omec-project/upf-epc/pfcpiface"
	"github.com/wmnsk/go-pfcp/message"

	"verifharness/internal/sysh"
)

func init() { props["C13"] = c13 }

// ddn injects a downlink-data report for fseid through the BESS notify socket and records the Session Report
// Requests the peer of association a receives.
func (w *world) ddn(a int, fseid uint64, class string) {
	p := w.peers[a]
	p.Inbox = nil
	ok := w.s.NotifyBess(fseid)
	p.Idle(60 * time.Millisecond)
	// barrier: a heartbeat round trip after the report had time to travel
	replies, barrier := p.Exchange(sysh.Marshal(message.NewHeartbeatRequest(p.NextSeq(), nil, nil)), w.wait)
	_ = replies
	var reports [][]uint64
	for _, r := range p.Inbox {
		m, err := message.Parse(r)
		if err != nil || m.MessageType() != message.MsgTypeSessionReportRequest {
			continue
		}
		sr := m.(*message.SessionReportRequest)
		pdr := uint64(0)
		if sr.DownlinkDataReport != nil {
			if id, err := sr.DownlinkDataReport.PDRID(); err == nil {
				pdr = uint64(id)
			}
		}
		dldr := uint64(0)
		if sr.ReportType != nil && sr.ReportType.HasDLDR() {
			dldr = 1
		}
		reports = append(reports, []uint64{m.SEID(), pdr, uint64(m.Sequence()), dldr})
	}
	if reports == nil {
		reports = [][]uint64{}
	}
	w.emit("ddn/"+class, len(reports) > 0, map[string]interface{}{"k": "ddn", "a": a, "seid": fseid, "sent": ok,
		"obs": map[string]interface{}{"alive": !w.s.Exited() && barrier, "reports": reports}})
}

func c13(c *ctx) {
	r := c.rng
	// ---- the notifier with a short interval and recorded call windows
	for run := 0; run < c.pick(4, 40); run++ {
		iv := []time.Duration{50 * time.Millisecond, 30 * time.Millisecond, 80 * time.Millisecond}[run%3]
		n := pfcpiface.VerifNewNotifier(iv)
		start := time.Now()
		var sb strings.Builder
		calls := c.pick(500, 1500)
		for i := 0; i < calls; i++ {
			fseid := uint64(1 + r.Intn(6))
			b := time.Since(start)
			fwd := n.Notify(fseid)
			a := time.Since(start)
			fmt.Fprintf(&sb, " %d %d %d %d", b.Nanoseconds(), a.Nanoseconds(), fseid, b01(fwd))
			switch r.Intn(10) {
			case 0:
				time.Sleep(iv/2 + time.Duration(r.Intn(int(iv))))
			case 1, 2:
				time.Sleep(time.Duration(r.Intn(int(iv) / 4)))
			case 3:
				time.Sleep(iv - 2*time.Millisecond + time.Duration(r.Intn(4))*time.Millisecond) // right around the boundary
			}
		}
		c.t.Case("notif/windows", true, "notif %d %d%s", iv.Nanoseconds(), calls, sb.String())
	}
	// ---- the full path: BESS notify socket -> notifier -> node -> Session Report Request at the peer
	w, err := newWorld(c, sysh.Opts{Notify: true, ReadTimeout: 600})
	if err != nil {
		panic(err)
	}
	defer w.close()
	w.cfgLine()
	if !w.start() {
		return
	}
	w.assoc(0)
	for i := 0; i < c.pick(20, 300); i++ {
		ue := w.nextUE
		w.nextUE++
		teid := w.nextTEID
		w.nextTEID += 4
		pdrs := []sysh.PdrIE{
			{ID: 1, Prec: 10, Src: u8p(0), Teid: u32p3(0, teid, n3IP), UE: u32p2(2, ue), Ohr: u8p(0), Far: 1},
			{ID: uint16(2 + r.Intn(3)), Prec: 20, Src: u8p(1), UE: u32p2(2, ue), Far: 2},
			{ID: 7, Prec: 30, Src: u8p(1), UE: u32p2(2, ue), Sdf: strp(sdfPool[1]), Far: 3},
		}
		fars := []sysh.FarIE{{ID: 1, Act: 2, Fwd: &sysh.FwdIE{Dst: u8p(1)}}, {ID: 2, Act: []uint8{0x0C, 0x08, 0x04, 0x02, 0x01, 0x09}[r.Intn(6)], Fwd: nil}, {ID: 3, Act: 0x0C}}
		if fars[1].Act&2 != 0 {
			fars[1].Fwd = &sysh.FwdIE{Dst: u8p(0), Ohc: u32p2(teid+1, 0xC6120101)}
		}
		switch r.Intn(6) {
		case 0: // uplink only: no downlink PDR at all
			pdrs, fars = pdrs[:1], fars[:1]
		case 1: // the first downlink PDR points to a FAR the session does not have
			pdrs[1].Far = 9
		}
		w.nextCP++
		h, _ := w.est(0, w.nodes[0], w.nextCP, pdrs, fars, nil, "ddn")
		if h == nil {
			continue
		}
		if r.Intn(3) == 0 {
			// the control plane moves the session to another CP F-SEID before any report: reports go to the new one
			w.nextCP++
			if w.mod(0, h.up, modReq{cpf: &[2]uint64{w.nextCP, 0x0A000001}}, "cp-fseid").Cause == 1 {
				h.cp = w.nextCP
			}
		}
		w.ddn(0, h.up, "first")
		for k := 0; k < r.Intn(4); k++ {
			w.ddn(0, h.up, "repeat") // well inside the 20 s interval
		}
		if r.Intn(3) == 0 {
			w.ddn(0, h.up^0x77777, "unknown-session")
		}
		if r.Intn(2) == 0 {
			w.del(0, h.up, "ddn")
			if r.Intn(2) == 0 {
				w.ddn(0, h.up, "deleted-session")
			}
		}
	}
}
