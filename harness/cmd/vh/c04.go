package main

import (
	"fmt"
	"verifharness/internal/sysh"
)

func init() { props["C04"] = c04 }

// p4Opts draws a UP4 configuration: slice, default traffic class, QFI -> TC map.
func p4Opts(c *ctx, k int) sysh.Opts {
	r := c.rng
	o := sysh.Opts{P4: true, Pool: "10.60.0.0/16", P4Slice: []int{0, 1, 15, 7}[k%4], P4DefaultTC: []int{3, 0, 1, 2}[k%4]}
	if k%3 != 0 {
		// QFI 5 is mapped to class 0 (BEST_EFFORT), QFI 9 to a class other than the default
		o.P4QfiTC = map[string]int{"5": 0, "9": (o.P4DefaultTC + 1) % 4}
		if o.P4DefaultTC == 0 {
			o.P4QfiTC["5"] = 2
			o.P4QfiTC["1"] = 0
		}
		for _, q := range []int{0, 63, 8, 7} {
			if r.Intn(2) == 0 {
				o.P4QfiTC[fmt.Sprint(q)] = r.Intn(4)
			}
		}
	}
	return o
}

// c04: request histories on the UP4 datapath; the switch is the harness' own P4Runtime server. Some
// histories end with the agent killed and restarted against the same switch.
func c04(c *ctx) {
	r := c.rng
	runs := c.pick(6, 400)
	steps := c.pick(25, 80)
	for k := 0; k < runs; k++ {
		w, err := newWorld(c, p4Opts(c, k))
		if err != nil {
			panic(err)
		}
		w.cfgLine()
		if !w.start() {
			w.close()
			return
		}
		nA := 1 + r.Intn(2)
		for a := 0; a < nA; a++ {
			w.assoc(a)
		}
		if k%3 == 1 {
			// only sessions whose downlink buffers and that carry application filters: sessions, terminations and applications
			// tables are populated, tunnel_peers is empty — and the agent is killed and restarted against the same switch
			for i := 0; i < 2; i++ {
				pdrs, fars, _ := w.p4session()
				f := sdfPool[1+i]
				pdrs = pdrs[:2]
				pdrs[0].Sdf, pdrs[1].Sdf = strp(f), strp(f)
				pdrs[0].Prec, pdrs[1].Prec = 100, 200
				pdrs[0].Qers, pdrs[1].Qers = nil, nil
				pdrs[0].Far, pdrs[1].Far = 1, 2
				fars = []sysh.FarIE{fars[0], {ID: 2, Act: 0x0C}}
				w.nextCP++
				w.est(0, w.nodes[0], w.nextCP, pdrs, fars, nil, "buffering-with-filter")
			}
			w.s.Kill()
			w.emit("kill", true, map[string]interface{}{"k": "kill"})
			if !w.start() {
				w.close()
				return
			}
			for a := 0; a < nA; a++ {
				w.assoc(a)
			}
		}
		if k < 2 {
			w.tunnelNamedWhileBuffering([]string{"del", "release"}[k])
		} else if k < 4 {
			w.uplinkFarNamesTunnel([]string{"del", "release"}[k-2])
		}
		w.p4history(steps)
		if k%2 == 0 {
			// the agent is killed at this point of the history and restarted against the same switch
			w.s.Kill()
			w.emit("kill", true, map[string]interface{}{"k": "kill"})
			if !w.start() {
				w.close()
				return
			}
			w.assoc(0)
			w.p4history(steps / 3)
		}
		w.close()
	}
}

// tunnelNamedWhileBuffering: session A buffers its downlink; its FAR is given gNB X's tunnel (still buffering) while
// session B forwards to X; B leaves; A is then deleted (end "del") or its association released (end "release").
// A must stay modifiable and deletable, and nothing of it may remain afterwards.
func (w *world) tunnelNamedWhileBuffering(end string) {
	mk := func(buffer bool) ([]sysh.PdrIE, []sysh.FarIE) {
		ue, teid := w.nextUE, w.nextTEID
		w.nextUE++
		w.nextTEID += 3
		pdrs := []sysh.PdrIE{{ID: 1, Prec: 100, Src: u8p(0), Teid: u32p3(0, teid, n3IP), UE: u32p2(2, ue), Ohr: u8p(0), Far: 1},
			{ID: 2, Prec: 100, Src: u8p(1), UE: u32p2(2, ue), Far: 2}}
		fars := []sysh.FarIE{{ID: 1, Act: 2, Fwd: &sysh.FwdIE{Dst: u8p(1)}}, {ID: 2, Act: 2, Fwd: &sysh.FwdIE{Dst: u8p(0), Ohc: u32p2(teid+1, 0xC6120109)}}}
		if buffer {
			fars[1] = sysh.FarIE{ID: 2, Act: 0x0C}
		}
		return pdrs, fars
	}
	pa, fa := mk(true)
	w.nextCP++
	A, _ := w.est(0, w.nodes[0], w.nextCP, pa, fa, nil, "buffering")
	pb, fb := mk(false)
	w.nextCP++
	B, _ := w.est(0, w.nodes[0], w.nextCP, pb, fb, nil, "forwarding-to-X")
	if A == nil || B == nil {
		return
	}
	g := sysh.FarIE{ID: 2, Act: 0x0C, Fwd: &sysh.FwdIE{Dst: u8p(0), Ohc: u32p2(80100, 0xC6120109)}}
	if w.mod(0, A.up, modReq{uf: []sysh.FarIE{g}}, "tunnel-named-while-buffering").Cause == 1 {
		A.fars[1] = g
	}
	if w.del(0, B.up, "last-forwarding-user-of-X").Cause == 1 {
		B.dead = true
	}
	if end == "del" {
		if w.del(0, A.up, "buffering-session-naming-X").Cause == 1 {
			A.dead = true
		}
	} else {
		w.release(0)
		A.dead = true
		w.assoc(0)
	}
}

// uplinkFarNamesTunnel: session A's UPLINK FAR (towards the core) carries an outer header creation naming gNB X (N9 style) while
// session B forwards its downlink to X; B leaves (the last user of X's tunnel peer); A is then deleted (end "del") or its
// association released. A takes no reference on the peer and must not need it.
func (w *world) uplinkFarNamesTunnel(end string) {
	mk := func(ulOhc bool) ([]sysh.PdrIE, []sysh.FarIE) {
		ue, teid := w.nextUE, w.nextTEID
		w.nextUE++
		w.nextTEID += 3
		pdrs := []sysh.PdrIE{{ID: 1, Prec: 100, Src: u8p(0), Teid: u32p3(0, teid, n3IP), UE: u32p2(2, ue), Ohr: u8p(0), Far: 1},
			{ID: 2, Prec: 100, Src: u8p(1), UE: u32p2(2, ue), Far: 2}}
		fars := []sysh.FarIE{{ID: 1, Act: 2, Fwd: &sysh.FwdIE{Dst: u8p(1)}}, {ID: 2, Act: 2, Fwd: &sysh.FwdIE{Dst: u8p(0), Ohc: u32p2(teid+1, 0xC612010A)}}}
		if ulOhc {
			fars[0].Fwd.Ohc = u32p2(80200, 0xC612010A)
			fars[1] = sysh.FarIE{ID: 2, Act: 0x0C}
		}
		return pdrs, fars
	}
	pb, fb := mk(false)
	w.nextCP++
	B, _ := w.est(0, w.nodes[0], w.nextCP, pb, fb, nil, "forwarding-to-X")
	pa, fa := mk(true)
	w.nextCP++
	A, _ := w.est(0, w.nodes[0], w.nextCP, pa, fa, nil, "uplink-far-names-X")
	if B != nil && w.del(0, B.up, "last-forwarding-user-of-X").Cause == 1 {
		B.dead = true
	}
	if A == nil {
		return
	}
	if end == "del" {
		if w.del(0, A.up, "uplink-far-names-X").Cause == 1 {
			A.dead = true
		}
	} else {
		w.release(0)
		A.dead = true
		w.assoc(0)
	}
}

// p4session draws a session the UP4 datapath supports: an uplink and a downlink PDR (and sometimes further ones),
// sharing or not sharing gNB peers and application filters with other sessions.
func (w *world) p4session() ([]sysh.PdrIE, []sysh.FarIE, []sysh.QerIE) {
	r := w.c.rng
	ue := w.nextUE
	w.nextUE++
	teid := w.nextTEID
	w.nextTEID += 3
	gnb := uint32(0xC6120100) + uint32(r.Intn(3))
	prec := func() uint32 { return []uint32{0, 1, 100, 255, 256, 65534, 65535}[r.Intn(7)] }
	ul := sysh.PdrIE{ID: 1, Prec: prec(), Src: u8p(0), Teid: u32p3(0, teid, n3IP), UE: u32p2(2, ue), Ohr: u8p(0), Far: 1}
	dl := sysh.PdrIE{ID: 2, Prec: prec(), Src: u8p(1), UE: u32p2(2, ue), Far: 2}
	farUL := sysh.FarIE{ID: 1, Act: 2, Fwd: &sysh.FwdIE{Dst: u8p(1)}}
	farDL := sysh.FarIE{ID: 2, Act: 2, Fwd: &sysh.FwdIE{Dst: u8p(0), Ohc: u32p2(teid+1, gnb)}}
	q := func(id uint32, mbr uint64) sysh.QerIE {
		return sysh.QerIE{ID: id, Qfi: uint8([]int{9, 5, 1, 0, 63, 8}[r.Intn(6)]), Mbr: [2]uint64{mbr, mbr * 2}, Gate: [2]uint8{uint8(r.Intn(5) / 4), uint8(r.Intn(5) / 4)}}
	}
	pdrs := []sysh.PdrIE{ul, dl}
	fars := []sysh.FarIE{farUL, farDL}
	var qers []sysh.QerIE
	switch r.Intn(8) {
	case 0, 1: // application QER per direction and a session QER
		pdrs[0].Qers, pdrs[1].Qers = []uint32{1, 4}, []uint32{2, 4}
		qers = []sysh.QerIE{q(1, 1000+uint64(r.Intn(5000))), q(2, 2000), q(4, 50000)}
	case 2: // one QER for both directions
		pdrs[0].Qers, pdrs[1].Qers = []uint32{1}, []uint32{1}
		qers = []sysh.QerIE{q(1, uint64(r.Intn(5000)))}
	case 3: // application filters on both (shared between sessions drawing the same filter)
		f := sdfPool[1+r.Intn(4)]
		pdrs[0].Sdf, pdrs[1].Sdf = strp(f), strp(f)
		pdrs[0].Qers, pdrs[1].Qers = []uint32{1, 4}, []uint32{2, 4}
		qers = []sysh.QerIE{q(1, 300), q(2, 400), q(4, 9000)}
	case 4: // downlink buffers; no QER
		fars[1] = sysh.FarIE{ID: 2, Act: 0x0C}
	case 5: // further PDRs with application filters, own FARs (drop / forward) and QERs, same TEID and UE address
		p3 := sysh.PdrIE{ID: 3, Prec: prec(), Src: u8p(1), UE: u32p2(2, ue), Sdf: strp(sdfPool[1+r.Intn(len(sdfPool)-1)]), Far: 3, Qers: []uint32{3, 4}}
		p4 := sysh.PdrIE{ID: 4, Prec: prec(), Src: u8p(0), Teid: u32p3(0, teid, n3IP), UE: u32p2(2, ue), Ohr: u8p(0), Sdf: strp(sdfPool[1+r.Intn(len(sdfPool)-1)]), Far: 1, Qers: []uint32{5, 4}}
		pdrs = append(pdrs, p3, p4)
		fars = append(fars, sysh.FarIE{ID: 3, Act: uint8(1 + r.Intn(2)), Fwd: &sysh.FwdIE{Dst: u8p(0), Ohc: u32p2(teid+2, gnb)}})
		pdrs[0].Qers, pdrs[1].Qers = []uint32{1, 4}, []uint32{2, 4}
		qers = []sysh.QerIE{q(1, 100), q(2, 200), q(3, 300), q(5, 500), q(4, 9000)}
	case 6: // no QER at all
	case 7: // closed gates
		pdrs[0].Qers, pdrs[1].Qers = []uint32{1}, []uint32{2}
		q1, q2 := q(1, 1500), q(2, 2500)
		q1.Gate, q2.Gate = [2]uint8{uint8(r.Intn(2)), uint8(r.Intn(2))}, [2]uint8{uint8(r.Intn(2)), uint8(r.Intn(2))}
		qers = []sysh.QerIE{q1, q2}
	}
	// PFCP gives the order of the Create QER IEs and of a PDR's QER ID IEs no meaning: the session-wide QER may come
	// first in either (the terminations action must still follow the rule's application QER)
	if len(qers) > 1 && r.Intn(2) == 0 {
		for i, j := 0, len(qers)-1; i < j; i, j = i+1, j-1 {
			qers[i], qers[j] = qers[j], qers[i]
		}
	}
	if r.Intn(3) == 0 {
		for k := range pdrs {
			if len(pdrs[k].Qers) == 2 {
				pdrs[k].Qers = []uint32{pdrs[k].Qers[1], pdrs[k].Qers[0]}
			}
		}
	}
	return pdrs, fars, qers
}

func (w *world) p4history(steps int) {
	r := w.c.rng
	for i := 0; i < steps; i++ {
		var live []*hsess
		for _, s := range w.sessions {
			if !s.dead {
				live = append(live, s)
			}
		}
		choice := r.Intn(12)
		if len(live) == 0 || (choice < 4 && len(live) < 6) {
			a := r.Intn(len(w.peers))
			pdrs, fars, qers := w.p4session()
			w.nextCP++
			w.est(a, w.nodes[a], w.nextCP, pdrs, fars, qers, "new")
			continue
		}
		s := live[r.Intn(len(live))]
		dlFar := func() (int, bool) {
			for i, f := range s.fars {
				if f.ID == 2 {
					return i, true
				}
			}
			return 0, false
		}
		switch {
		case choice < 6:
			if w.del(s.a, s.up, "live").Cause == 1 {
				s.dead = true
			}
		case choice == 6: // idle: the downlink FAR buffers, keeping or dropping its forwarding parameters
			i, ok := dlFar()
			if !ok {
				continue
			}
			f := s.fars[i]
			f.Act = 0x0C
			switch r.Intn(3) {
			case 0:
				f.Fwd = nil
			case 1: // buffering, with (new) forwarding parameters towards a gNB other sessions may use
				f.Fwd = &sysh.FwdIE{Dst: u8p(0), Ohc: u32p2(uint32(80000+r.Intn(1000)), uint32(0xC6120100)+uint32(r.Intn(3)))}
			}
			if w.mod(s.a, s.up, modReq{uf: []sysh.FarIE{f}}, "buffer").Cause == 1 {
				s.fars[i] = f
			}
		case choice == 7: // active again / handover: forward to the same or another gNB
			i, ok := dlFar()
			if !ok {
				continue
			}
			f := s.fars[i]
			f.Act = 2
			gnb := uint32(0xC6120100) + uint32(r.Intn(4))
			teid := uint32(70000 + r.Intn(1000))
			if f.Fwd != nil && f.Fwd.Ohc != nil && r.Intn(2) == 0 {
				gnb, teid = f.Fwd.Ohc[1], f.Fwd.Ohc[0]
			}
			f.Fwd = &sysh.FwdIE{Dst: u8p(0), Ohc: u32p2(teid, gnb)}
			if w.mod(s.a, s.up, modReq{uf: []sysh.FarIE{f}}, "forward").Cause == 1 {
				s.fars[i] = f
			}
		case choice == 8: // QER update: rates, gates, QFI
			if len(s.qers) == 0 {
				continue
			}
			j := r.Intn(len(s.qers))
			q := s.qers[j]
			q.Mbr = [2]uint64{uint64(r.Intn(100000)), uint64(r.Intn(100000))}
			q.Gate = [2]uint8{uint8(r.Intn(2)), uint8(r.Intn(2))}
			if r.Intn(3) == 0 {
				q.Qfi = uint8([]int{9, 5, 1, 7}[r.Intn(4)])
			}
			if w.mod(s.a, s.up, modReq{uq: []sysh.QerIE{q}}, "update-qer").Cause == 1 {
				s.qers[j] = q
			}
		case choice == 9: // FAR action: drop / forward on the uplink FAR
			f := s.fars[0]
			f.Act = uint8(1 + r.Intn(2))
			if w.mod(s.a, s.up, modReq{uf: []sysh.FarIE{f}}, "update-far-action").Cause == 1 {
				s.fars[0] = f
			}
		case choice == 10: // remove a PDR (with or without its FAR), or create one
			if len(s.pdrs) > 2 && r.Intn(2) == 0 {
				p := s.pdrs[len(s.pdrs)-1]
				m := modReq{rp: []uint32{uint32(p.ID)}}
				if r.Intn(2) == 0 && p.Far != 1 && p.Far != 2 {
					m.rf = []uint32{p.Far}
				}
				if w.mod(s.a, s.up, m, "remove-pdr").Cause == 1 {
					s.pdrs = s.pdrs[:len(s.pdrs)-1]
					if m.rf != nil {
						for i, f := range s.fars {
							if f.ID == m.rf[0] {
								s.fars = append(s.fars[:i:i], s.fars[i+1:]...)
								break
							}
						}
					}
				}
			} else {
				id := uint16(10 + len(s.pdrs))
				p := sysh.PdrIE{ID: id, Prec: 77, Src: u8p(1), UE: s.pdrs[0].UE, Sdf: strp(sdfPool[1+r.Intn(len(sdfPool)-1)]), Far: 2}
				if w.mod(s.a, s.up, modReq{cp: []sysh.PdrIE{p}}, "create-pdr").Cause == 1 {
					s.pdrs = append(s.pdrs, p)
				}
			}
		case choice == 11: // PDR update: precedence or application filter
			j := r.Intn(len(s.pdrs))
			p := s.pdrs[j]
			if r.Intn(2) == 0 {
				p.Prec = []uint32{3, 300, 65535}[r.Intn(3)]
			} else {
				p.Sdf = strp(sdfPool[1+r.Intn(len(sdfPool)-1)])
			}
			if w.mod(s.a, s.up, modReq{up: []sysh.PdrIE{p}}, "update-pdr").Cause == 1 {
				s.pdrs[j] = p
			}
		}
	}
}
