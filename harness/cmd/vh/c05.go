package main

import (
	"os"
	"bufio"
	"fmt"
	"net/http"
	"strconv"
	"strings"
	"time"

	"github.com/wmnsk/go-pfcp/ie"
	"github.com/wmnsk/go-pfcp/message"

	"verifharness/internal/sysh"
)

func init() { props["C05"] = c05 }

// gauge scrapes the pfcp_sessions gauge (summed over node IDs) from the agent's /metrics.
func (w *world) gauge() int {
	resp, err := http.Get(fmt.Sprintf("http://127.0.0.1:%d/metrics", w.s.HTTPPort))
	if err != nil {
		return -1
	}
	defer resp.Body.Close()
	total := 0
	sc := bufio.NewScanner(resp.Body)
	for sc.Scan() {
		l := sc.Text()
		if strings.HasPrefix(l, "pfcp_sessions{") || strings.HasPrefix(l, "pfcp_sessions ") {
			f := strings.Fields(l)
			v, _ := strconv.ParseFloat(f[len(f)-1], 64)
			total += int(v)
		}
	}
	return total
}

// stats records the agent's bookkeeping (hooks) and the sessions gauge.
func (w *world) stats(class string) {
	st := w.s.Stats()
	if st == nil {
		st = map[string]int{"pool_free": -9}
	}
	st["gauge"] = w.gauge()
	w.emit("stats/"+class, true, map[string]interface{}{"k": "stats", "obs": map[string]interface{}{"alive": !w.s.Exited(), "stats": st, "tables": w.s.Bess.Snapshot()}})
}

// quiesce waits until the datapath has seen no command for a while (Shutdown runs asynchronously).
func (w *world) quiesce() {
	n := -1
	for i := 0; i < 200; i++ {
		time.Sleep(5 * time.Millisecond)
		if c := w.dpCount(); c == n {
			return
		} else {
			n = c
		}
	}
}

func (w *world) endBy(a int, how string, s *hsess) {
	p := w.peers[a]
	switch how {
	case "delete":
		if w.del(a, s.up, "end").Cause == 1 {
			s.dead = true
		}
		return
	case "release":
		w.release(a)
	case "report65":
		// Session Report Response answering 'session context not found'
		m := message.NewSessionReportResponse(0, 0, s.up, p.NextSeq(), 0, ie.NewCause(ie.CauseSessionContextNotFound))
		replies, barrier := p.Exchange(sysh.Marshal(m), w.wait)
		w.quiesce()
		o := w.observe(replies, barrier, 0, false)
		w.emit("end/report65", true, map[string]interface{}{"k": "report65", "a": a, "seid": s.up, "obs": o})
		s.dead = true
		return
	case "timeout":
		// the peer stays silent past the read timeout
		time.Sleep(time.Duration(w.s.Opts.ReadTimeout)*time.Second + 400*time.Millisecond)
		w.quiesce()
		w.emit("end/timeout", true, map[string]interface{}{"k": "gone", "a": a, "how": "timeout", "obs": map[string]interface{}{"alive": !w.s.Exited(), "tables": w.s.Bess.Snapshot()}})
		p.Fresh = true
	case "hbdead":
		// the peer stops answering the agent's heartbeats
		p.AnswerHB = false
		p.Idle(1500 * time.Millisecond)
		w.quiesce()
		w.emit("end/hbdead", true, map[string]interface{}{"k": "gone", "a": a, "how": "hbdead", "obs": map[string]interface{}{"alive": !w.s.Exited(), "tables": w.s.Bess.Snapshot()}})
		p.Fresh = true
		p.AnswerHB = true
	}
	for _, x := range w.sessions {
		if x.a == a {
			x.dead = true
		}
	}
}

func c05(c *ctx) {
	r := c.rng
	// ---- the five ways a session can end, after histories of accepted and rejected requests
	type cfg struct {
		name string
		o    sysh.Opts
		ways []string
	}
	cfgs := []cfg{
		{"plain", sysh.Opts{UEAlloc: true, Pool: "10.250.0.0/26", ReadTimeout: 600}, []string{"delete", "release", "report65"}},
		{"timeout", sysh.Opts{UEAlloc: true, Pool: "10.250.0.0/26", ReadTimeout: 1}, []string{"timeout"}},
		{"heartbeat", sysh.Opts{UEAlloc: true, Pool: "10.250.0.0/26", ReadTimeout: 600, HB: true, HBInterval: "250ms", RespTimeout: "100ms", MaxRetries: 1}, []string{"hbdead"}},
	}
	for _, cf := range cfgs {
		w, err := newWorld(c, cf.o)
		if err != nil {
			panic(err)
		}
		w.cfgLine()
		if !w.start() {
			w.close()
			return
		}
		rounds := c.pick(24, 300)
		if cf.name != "plain" {
			rounds = c.pick(4, 40)
		}
		for i := 0; i < rounds; i++ {
			how := cf.ways[i%len(cf.ways)]
			w.assoc(0)
			w.peers[0].AnswerHB = true
			// a few sessions, with accepted and rejected establishments / modifications before the end
			var mine []*hsess
			for k := 0; k < 1+r.Intn(3); k++ {
				shape := []int{2, 4, 0, 4, 1}[r.Intn(5)]
				pdrs, fars, qers := w.genSession(shape)
				w.nextCP++
				switch r.Intn(5) {
				case 0: // rejected after the session record, the UE address and a TEID were already acquired
					pdrs = append(pdrs, sysh.PdrIE{ID: 9, Prec: 1, Src: u8p(3), Far: 1})
				case 1:
					fars = append(fars, sysh.FarIE{ID: 9, Act: 0})
				}
				if h, _ := w.est(0, w.nodes[0], w.nextCP, pdrs, fars, qers, "c05"); h != nil {
					mine = append(mine, h)
					if r.Intn(4) == 0 {
						// every PDR leaves the session: it matches no traffic any more, but it still holds its FARs, QERs, UE address
						// and its place in the store until it ends
						var ids []uint32
						for _, p := range h.pdrs {
							ids = append(ids, uint32(p.ID))
						}
						w.mod(0, h.up, modReq{rp: ids}, "remove-all-pdrs")
						continue
					}
					if shape == 4 { // an accepted modification that removes a rule from the middle of the lists
						w.mod(0, h.up, modReq{rp: []uint32{2}, rf: []uint32{2}, rq: []uint32{2}}, "remove-middle")
					}
					if shape == 2 && r.Intn(2) == 0 {
						// the rule that made the UP allocate the UE address leaves the session (removed), or is updated by a PDR
						// without the UE IP Address IE: the address is the session's and goes back when the session ends
						if r.Intn(2) == 0 {
							w.mod(0, h.up, modReq{rp: []uint32{uint32(h.pdrs[1].ID)}}, "remove-allocating-pdr")
						} else {
							p := h.pdrs[1]
							p.UE = nil
							w.mod(0, h.up, modReq{up: []sysh.PdrIE{p}}, "update-allocating-pdr-without-ue-ip")
						}
					}
					if r.Intn(3) == 0 && len(h.pdrs) > 1 { // a modification refused AFTER it removed rules that are not the last of their lists
						w.mod(0, h.up, modReq{rp: []uint32{uint32(h.pdrs[0].ID)}, rf: []uint32{h.fars[0].ID}, rq: []uint32{999}}, "remove-then-refused")
					}
					if r.Intn(3) == 0 { // a modification rejected after its create/update step
						w.mod(0, h.up, modReq{uf: []sysh.FarIE{h.fars[0]}, rp: []uint32{99}}, "rejected")
					}
				}
			}
			w.stats("live")
			if len(mine) == 0 {
				continue
			}
			if how == "delete" || how == "report65" {
				for _, h := range mine {
					w.endBy(0, how, h)
				}
			} else {
				w.endBy(0, how, mine[0])
			}
			w.stats("ended")
		}
		w.close()
	}
	// ---- more attach/detach cycles than the smallest pool has addresses (/29: six addresses)
	w, err := newWorld(c, sysh.Opts{UEAlloc: true, Pool: "10.250.1.0/29", ReadTimeout: 600})
	if err != nil {
		panic(err)
	}
	defer w.close()
	w.cfgLine()
	if !w.start() {
		return
	}
	w.assoc(0)
	for i := 0; i < c.pick(20, 400); i++ {
		pdrs, fars, qers := w.genSession(2)
		w.nextCP++
		if i%5 == 4 { // every fifth attach is refused half-way
			pdrs = append(pdrs, sysh.PdrIE{ID: 9, Prec: 1, Src: u8p(3), Far: 1})
		}
		h, _ := w.est(0, w.nodes[0], w.nextCP, pdrs, fars, qers, "cycle")
		if h != nil {
			if i%7 == 6 {
				w.endBy(0, "report65", h)
			} else {
				w.endBy(0, "delete", h)
			}
		}
		if i%4 == 3 {
			w.stats("cycle")
		}
	}
	w.stats("cycle-end")
	c05up4(c)
	c05TeardownFault(c)
}

// c05up4: on the UP4 datapath a session also holds counter cells, meter cells, references on a tunnel peer and on
// applications. Attach / idle / resume / detach cycles; whenever no session is live the plug-in must have everything back
// and the switch hold nothing but the interfaces entries.
func c05up4(c *ctx) {
	r := c.rng
	for rep := 0; rep < c.pick(2, 12); rep++ {
		w, err := newWorld(c, sysh.Opts{P4: true, Pool: "10.60.0.0/16", P4DefaultTC: 3, ReadTimeout: 600})
		if err != nil {
			panic(err)
		}
		w.cfgLine()
		if !w.start() {
			w.close()
			return
		}
		w.assoc(0)
		if rep < 2 {
			w.tunnelNamedWhileBuffering([]string{"release", "del"}[rep])
			w.uplinkFarNamesTunnel([]string{"release", "del"}[rep])
		}
		for cyc := 0; cyc < c.pick(10, 60); cyc++ {
			var mine []*hsess
			for k := 0; k < 1+r.Intn(3); k++ {
				pdrs, fars, qers := w.p4session()
				for i := range pdrs { // precedence 65535 with a filter is refused by design: not part of these cycles
					if pdrs[i].Prec == 65535 {
						pdrs[i].Prec = 65534
					}
				}
				w.nextCP++
				if h, _ := w.est(0, w.nodes[0], w.nextCP, pdrs, fars, qers, "c05-up4"); h != nil {
					mine = append(mine, h)
				}
			}
			for _, h := range mine {
				// idle (buffering, forwarding parameters kept, as SD-Core's SMF does on AN release) and sometimes active again
				for i, f := range h.fars {
					if f.ID == 2 && f.Fwd != nil && f.Fwd.Ohc != nil && r.Intn(2) == 0 {
						g := f
						g.Act = 0x0C
						if w.mod(0, h.up, modReq{uf: []sysh.FarIE{g}}, "c05-idle").Cause == 1 {
							h.fars[i] = g
							if r.Intn(2) == 0 {
								g.Act = 2
								if w.mod(0, h.up, modReq{uf: []sysh.FarIE{g}}, "c05-resume").Cause == 1 {
									h.fars[i] = g
								}
							}
						}
					}
				}
			}
			switch cyc % 3 {
			case 0, 1:
				for _, h := range mine {
					if cyc%3 == 0 {
						w.del(0, h.up, "c05-up4")
					} else {
						w.endBy(0, "report65", h)
					}
					h.dead = true
				}
			default:
				w.release(0)
				w.assoc(0)
			}
		}
		w.close()
	}
}

// c05TeardownFault: the association ends while the P4Runtime server refuses every write. The switch cannot be cleaned (that is the
// fault), but what the agent itself holds for the sessions - UE addresses, TEIDs, the gauge - must be returned all the same: the
// association and its store are gone, nothing could ever return them later.
func c05TeardownFault(c *ctx) {
	for _, how := range []string{"release", "timeout", "report65"} {
		o := sysh.Opts{P4: true, UEAlloc: true, Pool: "10.62.0.0/28", ReadTimeout: 600}
		if how == "timeout" {
			o.ReadTimeout = 1
		}
		w, err := newWorld(c, o)
		if err != nil {
			panic(err)
		}
		w.quiet = true
		if !w.start() {
			w.close()
			return
		}
		w.assoc(0)
		n := 0
		var hs []*hsess
		for k := 0; k < 8 && n < 3; k++ {
			pdrs, fars, qers := w.genSession(2) // UP-chosen F-TEID, UP-allocated UE address
			for i := range pdrs {
				pdrs[i].Prec = uint32(100 + i)
			}
			w.nextCP++
			h, ob := w.est(0, w.nodes[0], w.nextCP, pdrs, fars, qers, "c05-teardown-fault")
			if h != nil {
				hs = append(hs, h)
				n++
			} else if os.Getenv("VERIF_DEBUG") != "" {
				fmt.Fprintf(os.Stderr, "tdfault est refused: %+v\n", ob)
			}
		}
		before := w.s.Stats()
		w.s.P4.Fault = func(int, []sysh.P4Up) (string, int, int) { return "rpc", -1, 0 }
		if how == "release" {
			w.release(0)
		} else if how == "report65" {
			// every session ends by a Session Report Response 'session context not found': the control plane has no such session and
			// will never delete it
			for _, h := range hs {
				w.endBy(0, "report65", h)
			}
		} else {
			time.Sleep(1500 * time.Millisecond)
		}
		var st map[string]int
		for i := 0; i < 100; i++ { // Shutdown runs asynchronously
			time.Sleep(20 * time.Millisecond)
			st = w.s.Stats()
			if st != nil && st["conns"] == 0 && st["pool_held"] == 0 && st["teid_used"] == 0 {
				break
			}
		}
		w.s.P4.Fault = nil
		if st == nil || before == nil {
			st, before = map[string]int{"pool_held": -1, "teid_used": -1, "conns": -1}, map[string]int{}
		}
		c.t.Case("c05/teardown-fault/"+how, n > 0, "tdfault %s %d %d %d => %d %d %d %d %d", how, n, before["pool_held"], before["teid_used"],
			b01(!w.s.Exited()), st["conns"], st["pool_held"], st["teid_used"], w.gauge())
		w.close()
	}
}
