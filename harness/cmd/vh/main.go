// vh: the correspondence harness. `vh <property> <tier> <seed> <trace-path>` drives the real
// code of /repo (built with -tags verif) and writes inputs + observed outputs, one case per line.
package main

import (
	"fmt"
	"math/rand"
	"os"
	"strconv"

	"github.com/omec-project/upf-epc/logger"
	"go.uber.org/zap/zapcore"

	"verifharness/internal/tr"
)

type ctx struct {
	tier  string
	seed  int64
	rng   *rand.Rand
	t     *tr.W
	extra map[string]interface{}
}

func (c *ctx) thorough() bool { return c.tier == "thorough" }

// pick returns q for the quick tier and th for the thorough tier.
func (c *ctx) pick(q, th int) int {
	if c.thorough() {
		return th
	}
	return q
}

var props = map[string]func(*ctx){}

func main() {
	if len(os.Args) >= 4 && os.Args[1] == "agentd" {
		agentd(os.Args[2:])
		return
	}
	if len(os.Args) < 5 {
		fmt.Fprintln(os.Stderr, "usage: vh <property> <quick|thorough> <seed> <trace>")
		os.Exit(2)
	}
	f, ok := props[os.Args[1]]
	if !ok {
		fmt.Fprintln(os.Stderr, "unknown property", os.Args[1])
		os.Exit(2)
	}
	if os.Getenv("VERIF_LOG") == "" {
		logger.PfcpLog = logger.PfcpLog.WithOptions() // keep handles; silence below Fatal
		devnull, _ := os.OpenFile(os.DevNull, os.O_WRONLY, 0)
		stdout := os.Stdout
		os.Stdout = devnull
		logger.SetLogLevel(zapcore.FatalLevel)
		os.Stdout = stdout
	}
	seed, _ := strconv.ParseInt(os.Args[3], 10, 64)
	c := &ctx{tier: os.Args[2], seed: seed, rng: rand.New(rand.NewSource(seed)), t: tr.New(os.Args[4]), extra: map[string]interface{}{}}
	f(c)
	c.t.Close(c.extra)
}

func hexs(s string) string {
	if s == "" {
		return "-"
	}
	return fmt.Sprintf("%x", s)
}
