package main

import (
	"os"
	"encoding/hex"
	"encoding/binary"
	"fmt"
	"net"
	"strings"
	"time"

	"github.com/wmnsk/go-pfcp/ie"
	"github.com/wmnsk/go-pfcp/message"

	"verifharness/internal/sysh"
)

func init() { props["C01"] = c01 }

// node is an IE tree the harness can mutate freely and serialise itself.
type node struct {
	typ      uint16
	payload  []byte
	children []*node
	grouped  bool
}

var groupedTypes = map[uint16]bool{
	ie.CreatePDR: true, ie.PDI: true, ie.CreateFAR: true, ie.ForwardingParameters: true, ie.CreateQER: true,
	ie.UpdatePDR: true, ie.UpdateFAR: true, ie.UpdateForwardingParameters: true, ie.UpdateQER: true,
	ie.RemovePDR: true, ie.RemoveFAR: true, ie.RemoveQER: true, ie.ApplicationIDsPFDs: true, ie.PFDContext: true,
	ie.CreatedPDR: true, ie.DownlinkDataReport: true,
}

func fromIE(i *ie.IE) *node {
	b := make([]byte, i.MarshalLen())
	_ = i.MarshalTo(b)
	return parseNode(b)
}

func parseNode(b []byte) *node {
	typ := binary.BigEndian.Uint16(b[0:2])
	l := int(binary.BigEndian.Uint16(b[2:4]))
	n := &node{typ: typ, payload: append([]byte{}, b[4:4+l]...)}
	if groupedTypes[typ] {
		n.grouped = true
		rest := n.payload
		for len(rest) >= 4 {
			cl := int(binary.BigEndian.Uint16(rest[2:4]))
			if 4+cl > len(rest) {
				break
			}
			n.children = append(n.children, parseNode(rest[:4+cl]))
			rest = rest[4+cl:]
		}
	}
	return n
}

func (n *node) bytes() []byte {
	p := n.payload
	if n.grouped {
		p = nil
		for _, c := range n.children {
			p = append(p, c.bytes()...)
		}
	}
	out := make([]byte, 4, 4+len(p))
	binary.BigEndian.PutUint16(out[0:2], n.typ)
	binary.BigEndian.PutUint16(out[2:4], uint16(len(p)))
	return append(out, p...)
}

func (n *node) clone() *node {
	c := &node{typ: n.typ, payload: append([]byte{}, n.payload...), grouped: n.grouped}
	for _, x := range n.children {
		c.children = append(c.children, x.clone())
	}
	return c
}

// datagram serialises a PFCP message with the given IEs.
func datagram(msgType uint8, hasSEID bool, seid uint64, seq uint32, ies []*node) []byte {
	var body []byte
	for _, n := range ies {
		body = append(body, n.bytes()...)
	}
	hdr := []byte{0x20, msgType, 0, 0}
	if hasSEID {
		hdr[0] |= 0x01
		s := make([]byte, 8)
		binary.BigEndian.PutUint64(s, seid)
		hdr = append(hdr, s...)
	}
	hdr = append(hdr, byte(seq>>16), byte(seq>>8), byte(seq), 0)
	binary.BigEndian.PutUint16(hdr[2:4], uint16(len(hdr)-4+len(body)))
	return append(hdr, body...)
}

type template struct {
	name    string
	msgType uint8
	hasSEID bool
	ies     []*node
}

func c01Templates(peerIP net.IP, nodeID string) []template {
	ts := time.Unix(1700000000, 0)
	sdf := "permit out udp from 10.20.0.0/16 53 to assigned 1000-1003"
	ul := ie.NewCreatePDR(ie.NewPDRID(1), ie.NewPrecedence(100), ie.NewPDI(ie.NewSourceInterface(0), ie.NewFTEID(0x01, 77, net.ParseIP("198.18.0.1"), nil, 0), ie.NewUEIPAddress(2, "10.60.0.1", "", 0, 0), ie.NewSDFFilter(sdf, "", "", "", 1)), ie.NewOuterHeaderRemoval(0, 0), ie.NewFARID(1), ie.NewQERID(1), ie.NewQERID(4))
	dl := ie.NewCreatePDR(ie.NewPDRID(2), ie.NewPrecedence(100), ie.NewPDI(ie.NewSourceInterface(1), ie.NewUEIPAddress(2, "10.60.0.1", "", 0, 0), ie.NewApplicationID("app0")), ie.NewFARID(2), ie.NewQERID(2), ie.NewQERID(4))
	ch := ie.NewCreatePDR(ie.NewPDRID(3), ie.NewPrecedence(7), ie.NewPDI(ie.NewSourceInterface(0), ie.NewFTEID(0x05, 0, nil, nil, 0), ie.NewUEIPAddress(0x10, "", "", 0, 0)), ie.NewFARID(1))
	f1 := ie.NewCreateFAR(ie.NewFARID(1), ie.NewApplyAction(2), ie.NewForwardingParameters(ie.NewDestinationInterface(1)))
	f2 := ie.NewCreateFAR(ie.NewFARID(2), ie.NewApplyAction(2), ie.NewForwardingParameters(ie.NewDestinationInterface(0), ie.NewOuterHeaderCreation(0x0100, 99, "198.18.1.1", "", 0, 0, 0)))
	q := func(id uint32) *ie.IE {
		return ie.NewCreateQER(ie.NewQERID(id), ie.NewQFI(9), ie.NewGateStatus(0, 0), ie.NewMBR(1000, 2000), ie.NewGBR(0, 0))
	}
	up := ie.NewUpdatePDR(ie.NewPDRID(1), ie.NewPrecedence(50), ie.NewPDI(ie.NewSourceInterface(0), ie.NewFTEID(0x01, 77, net.ParseIP("198.18.0.1"), nil, 0), ie.NewUEIPAddress(2, "10.60.0.1", "", 0, 0), ie.NewSDFFilter(sdf, "", "", "", 1)), ie.NewOuterHeaderRemoval(0, 0), ie.NewFARID(1), ie.NewQERID(1), ie.NewQERID(4))
	uf := ie.NewUpdateFAR(ie.NewFARID(2), ie.NewApplyAction(2), ie.NewUpdateForwardingParameters(ie.NewDestinationInterface(0), ie.NewOuterHeaderCreation(0x0100, 100, "198.18.1.2", "", 0, 0, 0), ie.NewPFCPSMReqFlags(2)))
	uq := ie.NewUpdateQER(ie.NewQERID(1), ie.NewQFI(9), ie.NewGateStatus(0, 0), ie.NewMBR(3000, 4000), ie.NewGBR(0, 0))
	cp5 := ie.NewCreatePDR(ie.NewPDRID(5), ie.NewPrecedence(9), ie.NewPDI(ie.NewSourceInterface(1), ie.NewUEIPAddress(2, "10.60.0.1", "", 0, 0), ie.NewSDFFilter("permit out tcp from 9.9.9.9 443 to assigned", "", "", "", 2)), ie.NewFARID(5), ie.NewQERID(5))
	cf5 := ie.NewCreateFAR(ie.NewFARID(5), ie.NewApplyAction(1))
	conv := func(l ...*ie.IE) []*node {
		var out []*node
		for _, x := range l {
			out = append(out, fromIE(x))
		}
		return out
	}
	return []template{
		{"heartbeat-request", message.MsgTypeHeartbeatRequest, false, conv(ie.NewRecoveryTimeStamp(ts))},
		{"heartbeat-response", message.MsgTypeHeartbeatResponse, false, conv(ie.NewRecoveryTimeStamp(ts))},
		{"association-setup-request", message.MsgTypeAssociationSetupRequest, false, conv(ie.NewNodeID(nodeID, "", ""), ie.NewRecoveryTimeStamp(ts), ie.NewCPFunctionFeatures(0))},
		{"association-setup-response", message.MsgTypeAssociationSetupResponse, false, conv(ie.NewNodeID(nodeID, "", ""), ie.NewCause(1), ie.NewRecoveryTimeStamp(ts))},
		{"association-release-request", message.MsgTypeAssociationReleaseRequest, false, conv(ie.NewNodeID(nodeID, "", ""))},
		{"pfd-management-request", message.MsgTypePFDManagementRequest, false, conv(ie.NewApplicationIDsPFDs(ie.NewApplicationID("app0"), ie.NewPFDContext(ie.NewPFDContents("permit out ip from 8.8.4.0/24 to assigned", "", "", "", "", nil, nil, nil), ie.NewPFDContents("permit in ip from any to 1.1.1.1", "", "", "", "", nil, nil, nil))))},
		{"session-establishment-request", message.MsgTypeSessionEstablishmentRequest, true, conv(ie.NewNodeID(nodeID, "", ""), ie.NewFSEID(4242, peerIP, nil), ul, dl, ch, f1, f2, q(1), q(2), q(4), ie.NewPDNType(1))},
		{"session-modification-request", message.MsgTypeSessionModificationRequest, true, conv(ie.NewFSEID(4243, peerIP, nil), cp5, cf5, q(5), up, uf, uq, ie.NewRemovePDR(ie.NewPDRID(3)), ie.NewRemoveFAR(ie.NewFARID(9)), ie.NewRemoveQER(ie.NewQERID(2)))},
		{"session-deletion-request", message.MsgTypeSessionDeletionRequest, true, nil},
		{"session-report-response", message.MsgTypeSessionReportResponse, true, conv(ie.NewCause(65))},
		{"session-report-response-accepted", message.MsgTypeSessionReportResponse, true, conv(ie.NewCause(1), ie.NewOffendingIE(5))},
		{"session-set-deletion-request", 14, false, conv(ie.NewNodeID(nodeID, "", ""))},
		{"node-report-request", 12, false, conv(ie.NewNodeID(nodeID, "", ""))},
		{"association-update-request", 7, false, conv(ie.NewNodeID(nodeID, "", ""))},
		{"version-not-supported", 11, false, nil},
		{"unknown-type-99", 99, false, conv(ie.NewNodeID(nodeID, "", ""))},
	}
}

type mutation struct {
	desc string
	ies  []*node
}

// v6Variant returns an IPv6-only form of an address-carrying IE, or nil.
func v6Variant(n *node) *node {
	v6 := net.ParseIP("2001:db8::1")
	var x *ie.IE
	switch n.typ {
	case ie.NodeID:
		x = ie.NewNodeID("", "2001:db8::1", "")
	case ie.FSEID:
		x = ie.NewFSEID(4242, nil, v6)
	case ie.FTEID:
		x = ie.NewFTEID(0x02, 77, nil, v6, 0)
	case ie.OuterHeaderCreation:
		x = ie.NewOuterHeaderCreation(0x0200, 99, "", "2001:db8::1", 0, 0, 0)
	case ie.UEIPAddress:
		x = ie.NewUEIPAddress(1, "", "2001:db8::1", 0, 0)
	default:
		return nil
	}
	return fromIE(x)
}

// singleMutations enumerates every single mutation of every IE position (recursively in grouped IEs).
func singleMutations(ies []*node) []mutation {
	var out []mutation
	var walk func(path string, get func(root []*node) *[]*node, list []*node)
	walk = func(path string, get func(root []*node) *[]*node, list []*node) {
		for i := range list {
			i := i
			p := fmt.Sprintf("%s/%d:%d", path, i, list[i].typ)
			apply := func(desc string, f func(l *[]*node)) {
				root := make([]*node, len(ies))
				for k := range ies {
					root[k] = ies[k].clone()
				}
				l := get(root)
				f(l)
				out = append(out, mutation{p + " " + desc, root})
			}
			apply("drop", func(l *[]*node) { *l = append((*l)[:i], (*l)[i+1:]...) })
			apply("duplicate", func(l *[]*node) { *l = append((*l)[:i+1], append([]*node{(*l)[i].clone()}, (*l)[i+1:]...)...) })
			apply("empty", func(l *[]*node) { (*l)[i] = &node{typ: (*l)[i].typ} })
			apply("retype-unknown", func(l *[]*node) { (*l)[i].typ = 32000 })
			apply("retype-cause", func(l *[]*node) { (*l)[i].typ = ie.Cause })
			apply("retype-nodeid", func(l *[]*node) { (*l)[i].typ = ie.NodeID })
			apply("retype-createpdr", func(l *[]*node) { (*l)[i].typ = ie.CreatePDR; (*l)[i].grouped = false })
			apply("truncate-half", func(l *[]*node) {
				n := (*l)[i]
				b := n.bytes()[4:]
				(*l)[i] = &node{typ: n.typ, payload: b[:len(b)/2]}
			})
			apply("one-byte", func(l *[]*node) { (*l)[i] = &node{typ: (*l)[i].typ, payload: []byte{0}} })
			apply("all-ones", func(l *[]*node) {
				n := (*l)[i]
				b := n.bytes()[4:]
				for k := range b {
					b[k] = 0xff
				}
				(*l)[i] = &node{typ: n.typ, payload: b}
			})
			if v := v6Variant(list[i]); v != nil {
				apply("ipv6-only", func(l *[]*node) { (*l)[i] = v.clone() })
			}
			if list[i].typ == ie.SDFFilter || list[i].typ == ie.PFDContents {
				// every token-prefix of the flow description
				var fd string
				if list[i].typ == ie.SDFFilter {
					if f, err := ie.New(list[i].typ, list[i].payload).SDFFilter(); err == nil {
						fd = f.FlowDescription
					}
				} else if f, err := ie.New(list[i].typ, list[i].payload).PFDContents(); err == nil {
					fd = f.FlowDescription
				}
				toks := strings.Fields(fd)
				for k := 0; k < len(toks); k++ {
					pre := strings.Join(toks[:k], " ")
					var repl *node
					if list[i].typ == ie.SDFFilter {
						repl = fromIE(ie.NewSDFFilter(pre, "", "", "", 1))
					} else {
						repl = fromIE(ie.NewPFDContents(pre, "", "", "", "", nil, nil, nil))
					}
					apply(fmt.Sprintf("flow-prefix-%d", k), func(l *[]*node) { (*l)[i] = repl.clone() })
				}
			}
			if list[i].grouped {
				walk(p, func(root []*node) *[]*node { return &(*get(root))[i].children }, list[i].children)
			}
		}
	}
	walk("", func(root []*node) *[]*node { return &root }, ies)
	return out
}

func c01(c *ctx) {
	defer c01Wedge(c)
	defer c01Bounce(c)
	defer c01ChooseInModification(c)
	defer c01AssocResponse(c)
	defer c01RepeatedRuleIDs(c)
	w, err := newWorld(c, sysh.Opts{UEAlloc: true, Pool: "10.250.0.0/16", EndMarker: true, ReadTimeout: 30})
	if err != nil {
		panic(err)
	}
	defer w.close()
	if !w.start() {
		return
	}
	restarts := 0
	// the second association: a valid request on it must keep working whatever the first receives
	other := func() bool {
		p, err := w.s.NewPeer(true)
		if err != nil {
			return false
		}
		defer p.Close()
		seq := p.NextSeq()
		req := message.NewAssociationSetupRequest(seq, ie.NewNodeID(p.Addr, "", ""), ie.NewRecoveryTimeStamp(time.Unix(1700000000, 0)))
		replies, ok := p.Exchange(sysh.Marshal(req), w.wait)
		return ok && len(replies) == 1
	}
	states := []string{"no-association", "associated", "session", "modified", "deleted", "released"}
	type prepared struct {
		p      *sysh.Peer
		seid   uint64
		shared bool
	}
	// one long-lived association serves the states that need one; a case that destroys it makes the next one rebuild it
	var shared *sysh.Peer
	exchOn := func(p *sysh.Peer, m message.Message) ([][]byte, bool) { return p.Exchange(sysh.Marshal(m), w.wait) }
	ensureShared := func() *sysh.Peer {
		if shared != nil {
			// is the association still there? a request that needs it and changes nothing is the probe
			r, ok := exchOn(shared, message.NewSessionDeletionRequest(0, 0, 1, shared.NextSeq(), 0))
			if ok && len(r) == 1 && !shared.Fresh {
				return shared
			}
			shared.Close()
		}
		p, err := w.s.NewPeer(true)
		if err != nil {
			panic(err)
		}
		exchOn(p, message.NewAssociationSetupRequest(p.NextSeq(), ie.NewNodeID(p.Addr, "", ""), ie.NewRecoveryTimeStamp(time.Unix(1700000000, 0))))
		exchOn(p, message.NewPFDManagementRequest(p.NextSeq(), ie.NewApplicationIDsPFDs(ie.NewApplicationID("app0"), ie.NewPFDContext(ie.NewPFDContents("permit out ip from 8.8.4.0/24 to assigned", "", "", "", "", nil, nil, nil)))))
		shared = p
		return p
	}
	prepare := func(state string) prepared {
		if state == "no-association" || state == "released" {
			p, err := w.s.NewPeer(true)
			if err != nil {
				panic(err)
			}
			if state == "released" {
				exchOn(p, message.NewAssociationSetupRequest(p.NextSeq(), ie.NewNodeID(p.Addr, "", ""), ie.NewRecoveryTimeStamp(time.Unix(1700000000, 0))))
				exchOn(p, message.NewAssociationReleaseRequest(p.NextSeq(), ie.NewNodeID(p.Addr, "", "")))
				time.Sleep(25 * time.Millisecond) // let the node forget the association
				p.Fresh = true
			}
			return prepared{p: p}
		}
		p := ensureShared()
		pr := prepared{p: p, shared: true}
		if state == "associated" {
			return pr
		}
		tpl := c01Templates(p.IP, p.Addr)
		var est template
		for _, t := range tpl {
			if t.name == "session-establishment-request" {
				est = t
			}
		}
		r, _ := exchOn(p, mustParse(datagram(est.msgType, true, 0, p.NextSeq(), est.ies)))
		for _, x := range r {
			if m, err := message.Parse(x); err == nil {
				if se, ok := m.(*message.SessionEstablishmentResponse); ok && se.UPFSEID != nil {
					if f, err := se.UPFSEID.FSEID(); err == nil {
						pr.seid = f.SEID
					}
				}
			}
		}
		if state == "modified" || state == "deleted" {
			exchOn(p, message.NewSessionModificationRequest(0, 0, pr.seid, p.NextSeq(), 0, ie.NewUpdateFAR(ie.NewFARID(2), ie.NewApplyAction(2), ie.NewUpdateForwardingParameters(ie.NewDestinationInterface(0), ie.NewOuterHeaderCreation(0x0100, 101, "198.18.1.3", "", 0, 0, 0)))))
		}
		if state == "deleted" {
			exchOn(p, message.NewSessionDeletionRequest(0, 0, pr.seid, p.NextSeq(), 0))
		}
		return pr
	}
	run := func(state, tname, desc string, pr prepared, dg []byte) {
		replies, barrier := pr.p.Exchange(dg, w.wait)
		alive := !w.s.Exited()
		rt := "-"
		if len(replies) > 0 {
			if m, err := message.Parse(replies[0]); err == nil {
				rt = fmt.Sprint(m.MessageType())
			}
		}
		crash := "-"
		if !alive || !barrier {
			if w.s.Exited() || w.s.WaitExit(300*time.Millisecond) {
				crash = w.s.CrashInfo()
				alive = false
			} else {
				crash = "wedged"
			}
		}
		c.t.Case("c01/"+state+"/"+tname, len(replies) > 0, "c01 %s %s %s => %d %s %d %d %s", state, tname, hexs(desc), len(replies), rt, b01(alive), b01(barrier), crash)
		if !pr.shared {
			pr.p.Close()
		} else if tname == "association-release-request" || tname == "association-setup-request" {
			// the shared association may be gone or re-labelled: rebuild it for the next case
			shared.Close()
			shared = nil
		} else if pr.seid != 0 {
			// leave no session behind (whatever the mutated request did to it)
			exchOn(pr.p, message.NewSessionDeletionRequest(0, 0, pr.seid, pr.p.NextSeq(), 0))
		}
		if !alive || !barrier {
			if shared != nil {
				shared.Close()
				shared = nil
			}
			w.s.Kill()
			restarts++
			if restarts > 400 || !w.start() {
				panic("agent cannot be restarted")
			}
		}
	}
	nCases := 0
	// quick: every mutation in the state 'session' (where every handler is reachable), a sixth of them elsewhere
	sample := func(state string, i int) bool { return c.thorough() || state == "session" || (i+int(c.seed))%6 == 0 }
	for _, state := range states {
		if os.Getenv("VERIF_C01_RAWONLY") != "" {
			break
		}
		tpls := c01Templates(net.ParseIP("127.0.0.1"), "x")
		for ti := range tpls {
			// the unmutated template, then every single mutation
			base := prepare(state)
			t := c01Templates(base.p.IP, base.p.Addr)[ti]
			muts := singleMutations(t.ies)
			run(state, t.name, "valid", base, datagram(t.msgType, t.hasSEID, base.seid, base.p.NextSeq(), t.ies))
			for mi, m := range muts {
				if !sample(state, mi) {
					continue
				}
				pr := prepare(state)
				t := c01Templates(pr.p.IP, pr.p.Addr)[ti]
				mm := m
				if !pr.shared {
					// the template depends on the peer's address: mutate the fresh one
					mm = singleMutations(t.ies)[mi]
				}
				run(state, t.name, mm.desc, pr, datagram(t.msgType, t.hasSEID, pr.seid, pr.p.NextSeq(), mm.ies))
				nCases++
				if nCases%200 == 0 {
					c.t.Case("c01/other-association", true, "other %d", b01(other()))
				}
			}
		}
	}
	c.extra["single_mutation_cases"] = nCases
	c.extra["exhaustive_in_state_session"] = true
	// raw stream: random bytes, bit flips and truncations of valid datagrams
	pr := prepare("session")
	if f := os.Getenv("VERIF_C01_REPLAY"); f != "" {
		// replay of a recorded datagram sequence (tokens kind:hex): all at once, then with a barrier after every datagram
		b, _ := os.ReadFile(f)
		toks := strings.Fields(string(b))
		barrier := func() bool {
			_, ok := pr.p.Exchange(sysh.Marshal(message.NewHeartbeatRequest(pr.p.NextSeq(), ie.NewRecoveryTimeStamp(time.Unix(1700000000, 0)), nil)), w.wait)
			return ok
		}
		for _, mode := range []string{"all", "each"} {
			for i, t := range toks {
				k := strings.IndexByte(t, ':')
				if k < 0 || strings.HasPrefix(t, "send-error") {
					continue
				}
				dg, err := hex.DecodeString(t[k+1:])
				if err != nil {
					continue
				}
				_ = pr.p.SendRaw(dg)
				if mode == "each" {
					ok := barrier()
					fmt.Fprintf(os.Stderr, "replay each %d %s... => barrier %v alive %v\n", i, t[:min(len(t), 60)], ok, !w.s.Exited())
					if !ok {
						return
					}
				}
			}
			ok := barrier()
			fmt.Fprintf(os.Stderr, "replay %s => barrier %v alive %v\n", mode, ok, !w.s.Exited())
			if !ok {
				w.s.Kill()
				if !w.start() {
					return
				}
				pr = prepare("session")
			}
		}
		return
	}
	tp := c01Templates(pr.p.IP, pr.p.Addr)
	n := c.pick(3000, 300000)
	rawFailures := 0
	var since []string // the datagrams since the last answered barrier (hex): the replay of a failing one
	for i := 0; i < n; i++ {
		t := tp[c.rng.Intn(len(tp))]
		dg := datagram(t.msgType, t.hasSEID, pr.seid, pr.p.NextSeq(), t.ies)
		var kind string
		sel := c.rng.Intn(25)
		if sel < 24 {
			sel %= 4
		}
		switch sel {
		case 24: // (1 in 25) the empty datagram: a successful read of zero bytes on the association's socket
			kind = "empty"
			dg = []byte{}
		case 0:
			kind = "random"
			dg = make([]byte, c.rng.Intn(200))
			c.rng.Read(dg)
		case 1:
			kind = "bitflip"
			for k := 0; k < 1+c.rng.Intn(3); k++ {
				dg[c.rng.Intn(len(dg))] ^= 1 << uint(c.rng.Intn(8))
			}
		case 2:
			kind = "truncate"
			dg = dg[:c.rng.Intn(len(dg)+1)]
		default:
			kind = "random-body"
			for k := 12; k < len(dg); k++ {
				if c.rng.Intn(6) == 0 {
					dg[k] = byte(c.rng.Intn(256))
				}
			}
		}
		if err := pr.p.SendRaw(dg); err != nil {
			since = append(since, "send-error:"+err.Error())
			continue
		}
		since = append(since, kind+":"+hex.EncodeToString(dg))
		if i%50 == 49 || i == n-1 || len(dg) == 0 {
			// liveness barrier on the same association; the association may have been released by a mutated datagram
			_, barrier := pr.p.Exchange(sysh.Marshal(message.NewHeartbeatRequest(pr.p.NextSeq(), ie.NewRecoveryTimeStamp(time.Unix(1700000000, 0)), nil)), w.wait)
			alive := !w.s.Exited()
			// an association that has collected hundreds of sessions from mutated establishments takes seconds to tear down when a
			// mutated datagram happens to release it: busy is not wedged - a peer keeps retransmitting, and so does this one
			for retry := 0; retry < 6 && !barrier && !w.s.Exited(); retry++ {
				_, barrier = pr.p.Exchange(sysh.Marshal(message.NewHeartbeatRequest(pr.p.NextSeq(), ie.NewRecoveryTimeStamp(time.Unix(1700000000, 0)), nil)), w.wait)
			}
			crash := "-"
			if !alive || !barrier {
				if w.s.Exited() || w.s.WaitExit(300*time.Millisecond) {
					crash = w.s.CrashInfo()
					alive = false
				} else {
					crash = "wedged"
				}
			}
			c.t.Case("c01/raw/"+kind, true, "raw %d => %d %d %s", i, b01(alive), b01(barrier), crash)
			if !alive || !barrier {
				c.t.Note("raw-replay i=%d: the datagrams since the last answered barrier, in order: %s", i, strings.Join(since, " "))
			}
			since = since[:0]
			if !alive || !barrier {
				if rawFailures++; rawFailures >= 4 {
					break // each is a violation already; the agent is restarted for every one of them
				}
				w.s.Kill()
				if !w.start() {
					return
				}
				pr = prepare("session")
				tp = c01Templates(pr.p.IP, pr.p.Addr)
			}
		}
	}
}

// c01Wedge: with the agent's own heartbeats enabled, response-type datagrams that answer a pending request twice, late
// or with a foreign sequence number must not block the association's receive loop.
// c01Bounce: the peer's socket is closed at the moment the agent answers (the answer bounces with ICMP port unreachable and
// the agent's next read fails); the peer comes back on the same address and port and must be served as before.
func c01Bounce(c *ctx) {
	// the agent's own heartbeats (every 100 ms) are what bounces; the peer is back long before it would be declared dead
	w, err := newWorld(c, sysh.Opts{HB: true, HBInterval: "100ms", RespTimeout: "500ms", MaxRetries: 5, ReadTimeout: 600})
	if err != nil {
		panic(err)
	}
	defer w.close()
	if !w.start() {
		return
	}
	for round := 0; round < c.pick(4, 40); round++ {
		w.assoc(0)
		p := w.peers[0]
		p.AnswerHB = true
		p.Idle(150 * time.Millisecond) // answers the agent's heartbeats
		// the socket is closed while the agent's next Heartbeat Request arrives, and opened again on the same address and port
		la := p.Conn.LocalAddr()
		p.Conn.Close()
		time.Sleep(180 * time.Millisecond)
		_ = la
		if err := p.Rebind(); err != nil {
			c.t.Note("rebind: %v", err)
			return
		}
		answered := false
		for try := 0; try < 3 && !answered; try++ {
			seq := p.NextSeq()
			_ = p.SendRaw(sysh.Marshal(message.NewHeartbeatRequest(seq, ie.NewRecoveryTimeStamp(time.Unix(1700000000, 0)), nil)))
			deadline := time.Now().Add(300 * time.Millisecond)
			for time.Now().Before(deadline) && !answered {
				if rr, ok := p.Recv(time.Until(deadline)); ok {
					if m, err := message.Parse(rr); err == nil && m.MessageType() == message.MsgTypeHeartbeatResponse && m.Sequence() == seq {
						answered = true
					} else if err == nil && m.MessageType() == message.MsgTypeHeartbeatRequest {
						_ = p.SendRaw(sysh.Marshal(message.NewHeartbeatResponse(m.Sequence(), ie.NewRecoveryTimeStamp(time.Unix(1700000000, 0)))))
					}
				}
			}
		}
		c.t.Case("c01/bounce", true, "bounce => %d %d", b01(!w.s.Exited()), b01(answered))
		if !answered {
			return
		}
		w.release(0)
	}
}

// c01ChooseInModification: a modification creates a PDR whose F-TEID asks the UP to choose (the modification handler allocates
// nothing: the rule is stored with TEID 0), the session is deleted, and another association establishes with CHOOSE.
func c01ChooseInModification(c *ctx) {
	w, err := newWorld(c, sysh.Opts{ReadTimeout: 600})
	if err != nil {
		panic(err)
	}
	defer w.close()
	if !w.start() {
		return
	}
	w.wait = 1200 * time.Millisecond
	for round := 0; round < c.pick(2, 10); round++ {
		w.assoc(0)
		w.assoc(1)
		pdrs, fars, qers := w.genSession(0)
		w.nextCP++
		h, _ := w.est(0, w.nodes[0], w.nextCP, pdrs, fars, qers, "c01")
		if h == nil {
			return
		}
		np := sysh.PdrIE{ID: 30, Prec: 9, Src: u8p(0), Teid: u32p3(1, 0, 0), Ohr: u8p(0), Far: 1}
		if round%2 == 0 {
			w.mod(0, h.up, modReq{cp: []sysh.PdrIE{np}}, "c01-create-choose")
		} else {
			up := h.pdrs[0]
			up.Teid = u32p3(1, 0, 0)
			w.mod(0, h.up, modReq{up: []sysh.PdrIE{up}}, "c01-update-choose")
		}
		w.del(0, h.up, "c01")
		p2, f2, q2 := w.genSession(2) // CHOOSE
		w.nextCP++
		_, o := w.est(1, w.nodes[1], w.nextCP, p2, f2, q2, "c01-choose-after")
		c.t.Case("c01/choosemod", true, "choosemod => %d %d", b01(!w.s.Exited()), b01(o.N == 1))
		if o.N != 1 {
			return
		}
		w.release(0)
		w.release(1)
	}
}

func c01Wedge(c *ctx) {
	iv, rt := 200*time.Millisecond, 80*time.Millisecond
	w, err := newWorld(c, sysh.Opts{HB: true, HBInterval: iv.String(), RespTimeout: rt.String(), MaxRetries: 2, ReadTimeout: 600})
	if err != nil {
		panic(err)
	}
	defer w.close()
	if !w.start() {
		return
	}
	for round := 0; round < c.pick(3, 30); round++ {
		w.assoc(0)
		p := w.peers[0]
		pdrs, fars, qers := w.genSession(0)
		w.nextCP++
		h, _ := w.est(0, w.nodes[0], w.nextCP, pdrs, fars, qers, "c01")
		start := time.Now()
		watchHB(p, 3*iv, start, func(n int, seq uint32) []message.Message {
			switch round % 3 {
			case 0:
				return []message.Message{hbResp(seq), hbResp(seq), hbResp(seq)} // duplicated answers
			case 1:
				return []message.Message{hbResp(seq + 5), hbResp(seq), hbResp(seq - 1), hbResp(seq)} // foreign, answer, stale, duplicate
			default:
				if n == 1 {
					return nil // late: answered only at the retransmission, twice
				}
				return []message.Message{hbResp(seq), hbResp(seq)}
			}
		}, nil)
		p.AnswerHB = true
		alive := !w.s.Exited()
		known := false
		if h != nil {
			known = w.del(0, h.up, "c01-after-responses").Cause == 1
		}
		c.t.Case("c01/wedge", true, "wedge %d => %d %d", round%3, b01(alive), b01(known))
		w.release(0)
	}
}

func mustParse(b []byte) message.Message {
	m, err := message.Parse(b)
	if err != nil {
		panic(err)
	}
	return m
}
// c01AssocResponse: the agent's own Association Setup Request towards a configured peer is answered with a response that lacks,
// duplicates or re-types one of its IEs (this handler runs on the goroutine that sent the request, not under the dispatcher's
// recover). The agent must stay alive and go on serving another association.
func c01AssocResponse(c *ctx) {
	ts := ie.NewRecoveryTimeStamp(time.Unix(1700000000, 0))
	type variant struct {
		name string
		ies  func(node *ie.IE) []*ie.IE
	}
	vs := []variant{
		{"complete", func(n *ie.IE) []*ie.IE { return []*ie.IE{n, ie.NewCause(ie.CauseRequestAccepted), ts} }},
		{"no-recovery-time-stamp", func(n *ie.IE) []*ie.IE { return []*ie.IE{n, ie.NewCause(ie.CauseRequestAccepted)} }},
		{"no-node-id", func(n *ie.IE) []*ie.IE { return []*ie.IE{ie.NewCause(ie.CauseRequestAccepted), ts} }},
		{"no-cause", func(n *ie.IE) []*ie.IE { return []*ie.IE{n, ts} }},
		{"empty", func(n *ie.IE) []*ie.IE { return nil }},
		{"recovery-time-stamp-retyped", func(n *ie.IE) []*ie.IE {
			return []*ie.IE{n, ie.NewCause(ie.CauseRequestAccepted), ie.New(250, ts.Payload)}
		}},
		{"node-id-retyped", func(n *ie.IE) []*ie.IE { return []*ie.IE{ie.New(250, n.Payload), ie.NewCause(ie.CauseRequestAccepted), ts} }},
		{"rejected-bare", func(n *ie.IE) []*ie.IE { return []*ie.IE{ie.NewCause(ie.CauseRequestRejected)} }},
		{"rejected-with-node-id", func(n *ie.IE) []*ie.IE { return []*ie.IE{n, ie.NewCause(ie.CauseRequestRejected)} }},
		{"empty-recovery-time-stamp", func(n *ie.IE) []*ie.IE { return []*ie.IE{n, ie.NewCause(ie.CauseRequestAccepted), ie.New(ie.RecoveryTimeStamp, nil)} }},
		{"empty-node-id", func(n *ie.IE) []*ie.IE { return []*ie.IE{ie.New(ie.NodeID, nil), ie.NewCause(ie.CauseRequestAccepted), ts} }},
		{"empty-cause", func(n *ie.IE) []*ie.IE { return []*ie.IE{n, ie.New(ie.Cause, nil), ts} }},
	}
	for _, v := range vs {
		rt := 80 * time.Millisecond
		w, err := newWorld(c, sysh.Opts{RespTimeout: rt.String(), MaxRetries: 1, ReadTimeout: 600, Peers: []string{"127.0.1.77"}})
		if err != nil {
			panic(err)
		}
		p0, err := w.s.NewPeerAt("127.0.1.77", 8805)
		if err != nil {
			c.t.Note("c01/assocresp skipped: 127.0.1.77:8805 is not available: " + err.Error())
			w.close()
			return
		}
		done := make(chan int, 1)
		go func() {
			n := 0
			deadline := time.Now().Add(4 * time.Second)
			for time.Now().Before(deadline) {
				r, ok := p0.Recv(20 * time.Millisecond)
				if !ok {
					if n > 0 {
						break
					}
					continue
				}
				m, err := message.Parse(r)
				if err != nil || m.MessageType() != message.MsgTypeAssociationSetupRequest {
					continue
				}
				n++
				_ = p0.SendRaw(sysh.Marshal(message.NewAssociationSetupResponse(m.Sequence(), v.ies(ie.NewNodeID(p0.Addr, "", ""))...)))
				time.Sleep(150 * time.Millisecond)
				break
			}
			done <- n
		}()
		started := w.start() // false when the agent is gone before it reports ready: the response can arrive that early
		n := <-done
		// another association (set up by its control plane) is served
		ok := started && !w.s.Exited() && w.assoc(0)
		alive := !w.s.Exited()
		crash := ""
		if !alive {
			crash = strings.ReplaceAll(w.s.CrashInfo(), " ", "_")
		}
		c.t.Case("c01/assocresp/"+v.name, n > 0, "assocresp %s %d => %d %d %s", v.name, n, b01(alive), b01(ok), crash)
		p0.Close()
		w.close()
	}
}

// c01RepeatedRuleIDs: rule-ID IEs that are repeated inside one grouped IE (a QER ID twice in a Create / Update PDR, at every position,
// with the repeated ID being the session's QER or an application QER). Well-formed datagrams; whatever the agent makes of them, it
// answers once and goes on serving the association.
func c01RepeatedRuleIDs(c *ctx) {
	w, err := newWorld(c, sysh.Opts{ReadTimeout: 600})
	if err != nil {
		panic(err)
	}
	defer w.close()
	w.quiet = true
	if !w.start() {
		return
	}
	w.wait = 1500 * time.Millisecond
	lists := [][2][]uint32{
		{{1, 4, 4}, {2, 4}}, {{4, 1, 4}, {2, 4}}, {{4, 4, 1}, {4, 2}}, {{4, 4}, {4}}, {{1, 1, 4}, {2, 4}}, {{1, 4}, {2, 4, 2, 4}},
	}
	for i, l := range lists {
		for _, how := range []string{"create", "update"} {
			w.assoc(0)
			pdrs, fars, _ := w.genSession(0)
			qers := []sysh.QerIE{{ID: 1, Qfi: 9, Mbr: [2]uint64{1000, 2000}}, {ID: 2, Qfi: 9, Mbr: [2]uint64{2000, 4000}}, {ID: 4, Qfi: 9, Mbr: [2]uint64{50000, 50000}}}
			var o sysh.Obs
			if how == "create" {
				pdrs[0].Qers, pdrs[1].Qers = l[0], l[1]
				w.nextCP++
				_, o = w.est(0, w.nodes[0], w.nextCP, pdrs, fars, qers, "c01-repeated-qer-id")
			} else {
				pdrs[0].Qers, pdrs[1].Qers = []uint32{1, 4}, []uint32{2, 4}
				w.nextCP++
				h, _ := w.est(0, w.nodes[0], w.nextCP, pdrs, fars, qers, "c01-repeated-qer-id")
				if h == nil {
					continue
				}
				u0, u1 := pdrs[0], pdrs[1]
				u0.Qers, u1.Qers = l[0], l[1]
				o = w.mod(0, h.up, modReq{up: []sysh.PdrIE{u0, u1}}, "c01-repeated-qer-id")
			}
			alive := !w.s.Exited()
			crash := "-"
			if !alive {
				crash = strings.ReplaceAll(w.s.CrashInfo(), " ", "_")
			} else if !o.Alive || o.N == 0 {
				crash = "wedged"
			}
			c.t.Case("c01/repeated-rule-id/"+how, o.N > 0, "c01 session %s-pdr-with-repeated-qer-id %s => %d %d %d %d %s", how,
				hexs(fmt.Sprintf("lists %d: %v %v", i, l[0], l[1])), o.N, o.Type, b01(alive), b01(o.Alive && o.N > 0), crash)
			if !alive || crash == "wedged" {
				return
			}
			w.release(0)
		}
	}
}
