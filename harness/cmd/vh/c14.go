package main

import (
	"verifharness/internal/sysh"
)

func init() { props["C14"] = c14 }

func c14(c *ctx) {
	for _, em := range []bool{true, false} {
		w, err := newWorld(c, sysh.Opts{EndMarker: em, ReadTimeout: 600})
		if err != nil {
			panic(err)
		}
		w.cfgLine()
		if !w.start() {
			w.close()
			return
		}
		w.assoc(0)
		r := c.rng
		n := c.pick(150, 3000)
		if !em {
			n = c.pick(15, 300)
		}
		for i := 0; i < n; i++ {
			// a session with 1..3 downlink FARs towards gNBs (and an uplink FAR), any prior tunnel parameters
			ue := w.nextUE
			w.nextUE++
			teid := w.nextTEID
			w.nextTEID += 8
			pdrs := []sysh.PdrIE{{ID: 1, Prec: 10, Src: u8p(0), Teid: u32p3(0, teid, n3IP), UE: u32p2(2, ue), Ohr: u8p(0), Far: 1}}
			fars := []sysh.FarIE{{ID: 1, Act: 2, Fwd: &sysh.FwdIE{Dst: u8p(1)}}}
			nd := 1 + r.Intn(3)
			for k := 0; k < nd; k++ {
				id := uint32(2 + k)
				pdrs = append(pdrs, sysh.PdrIE{ID: uint16(id), Prec: uint32(20 + k), Src: u8p(1), UE: u32p2(2, ue), Sdf: strp(sdfPool[k%len(sdfPool)]), Far: id})
				f := sysh.FarIE{ID: id, Act: 2, Fwd: &sysh.FwdIE{Dst: u8p(0), Ohc: u32p2(teid+1+uint32(k), 0xC6120100+uint32(r.Intn(200)))}}
				switch r.Intn(6) {
				case 0:
					f = sysh.FarIE{ID: id, Act: 0x0C} // buffering, no tunnel yet
				case 1:
					f.Fwd.Sm = u8p(2) // flag on a creation: no marker
				}
				fars = append(fars, f)
			}
			w.nextCP++
			h, _ := w.est(0, w.nodes[0], w.nextCP, pdrs, fars, nil, "markers")
			if h == nil {
				continue
			}
			for step := 0; step < 1+r.Intn(4); step++ {
				var m modReq
				used := map[uint32]bool{}
				for k := 0; k < 1+r.Intn(3); k++ {
					id := uint32(2 + r.Intn(nd+1)) // sometimes an unknown FAR ID (nd+2)
					if used[id] {
						continue
					}
					used[id] = true
					f := sysh.FarIE{ID: id, Act: 2, Fwd: &sysh.FwdIE{Dst: u8p(0), Ohc: u32p2(uint32(r.Intn(1<<30)), 0xC6120200+uint32(r.Intn(200)))}}
					switch r.Intn(8) {
					case 0, 1, 2, 3:
						f.Fwd.Sm = u8p(2) // SNDEM
					case 4:
						f.Fwd.Sm = u8p(1) // another flag (DROBU) only
					case 5:
						f.Fwd.Sm = u8p(3)
					case 6:
						f.Fwd.Ohc = nil // flag without tunnel change
						f.Fwd.Sm = u8p(2)
					}
					if r.Intn(12) == 0 {
						f.Act = 0 // invalid action: the whole update is rejected, no marker
					}
					m.uf = append(m.uf, f)
				}
				if r.Intn(6) == 0 { // a creation with the flag in the same message
					nid := uint32(20 + step)
					m.cf = append(m.cf, sysh.FarIE{ID: nid, Act: 2, Fwd: &sysh.FwdIE{Dst: u8p(0), Ohc: u32p2(5, 0xC6120300), Sm: u8p(2)}})
				}
				if w.mod(0, h.up, m, "update-far").Cause != 1 {
					continue
				}
			}
			if r.Intn(2) == 0 {
				w.del(0, h.up, "markers")
				h.dead = true
			}
			// keep the tables (which every observation lists) small: the oldest sessions leave
			var live []*hsess
			for _, x := range w.sessions {
				if !x.dead {
					live = append(live, x)
				}
			}
			for len(live) > 12 {
				if w.del(0, live[0].up, "markers-old").Cause == 1 {
					live[0].dead = true
				}
				live = live[1:]
			}
		}
		w.close()
	}
}
