#!/bin/sh
# tools/seed3.sh <delivery> <Cxx> <k> [tier] — take a round-5 delivery from /tmp/seed10/out/<delivery>, confirm and keep it as
# seeded/<Cxx>-<k>, run the property's check against it
src=$1; p=$2; k=$3; st=/tmp/seed10/stage/$p-$k
rm -rf $st; mkdir -p $st; cp /tmp/seed10/out/$src/patch.diff /tmp/seed10/out/$src/meta.json $st/; cp /tmp/seed10/out/$src/*_test.go $st/ 2>/dev/null
git -C /repo worktree remove --force /tmp/seed10/$src 2>/dev/null
/verif/tools/keepseed.sh $st || exit 1
[ -d /verif/seeded/$p-$k ] || exit 1
/verif/tools/trymutant.sh /verif/seeded/$p-$k $p ${4:-quick} 2>&1 | grep -v "^KNOWN-FINDING" | tail -3
