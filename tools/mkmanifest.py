#!/usr/bin/env python3
"""Regenerate MANIFEST.json from bin/props.py (run with python3; validate with python3-vt)."""
import json, os, sys, subprocess
ROOT = os.path.dirname(os.path.dirname(os.path.abspath(__file__)))
sys.path.insert(0, os.path.join(ROOT, "bin"))
from props import PROPS, NOT_APPLICABLE
props = [json.loads(l) for l in open(os.path.join(ROOT, "properties.jsonl"))]
hooks = subprocess.run(["git", "-C", "/repo", "log", "--format=%H %s"], capture_output=True, text=True).stdout.splitlines()
hook_commits = [l.split()[0] for l in hooks if l.split(" ", 1)[1].startswith("verif:")]
checks = []
na = []
for p in props:
    pid = p["id"]
    if pid in PROPS:
        c = PROPS[pid]
        checks.append({
            "property_id": pid,
            "quick_cmd": f"bin/check {pid} quick",
            "thorough_cmd": f"bin/check {pid} thorough",
            "evidence_file": f"/verif/evidence/{pid}.json",
            "replay_cmd_template": "cat {path}   # the file names the seed/tier; VERIF_SEED=<seed> bin/check " + pid + " <tier> regenerates and re-executes the failing case",
            "engine": "lean4-proof+correspondence",
            "level_claimed": {"category": c.get("level", "proof"), "text": c["claim"], "design_ref": f"DESIGN.md section 6, {pid}"},
            "level_note": c["note"],
            "technique": c.get("technique", "Lean 4 theorems over an executable model; model tied to the Go code by regenerated facts (T1) and trace acceptance (T2)"),
        })
    else:
        na.append({"property_id": pid, "reason": NOT_APPLICABLE.get(pid, "check not built yet (framework under construction); planned, see DESIGN.md section 6")})
m = {
    "version": 1,
    "setup_cmd": "bin/setup",
    "hooks": {"guard": "verif", "enable": "go build -tags verif (harness module /verif/harness with `replace github.com/omec-project/upf-epc => /repo`)",
              "baseline_off_cmd": "cd /repo && GOFLAGS=-mod=mod go test -vet=off -count=1 -timeout 25m ./...",
              "source_commits": hook_commits, "add_only": True},
    "engines": [{"name": "lean4-proof+correspondence", "path": "/verif/bin/check", "serves_properties": [c["property_id"] for c in checks],
                 "kind_free_text": "Lean 4 proofs (lean/Upf/Props) about executable models (lean/Upf/Model); T1 Go extractor regenerates lean/Upf/Gen from /repo; "
                                   "T2 Go harness (-tags verif) records inputs and observed outputs of the real code, compiled Lean acceptor (lean/Check) replays them through the model and the property oracle"}],
    "checks": checks,
    "notes": "See DESIGN.md. A check prints KNOWN-FINDING lines for entries of known_findings.json and VIOLATION only for anything else.",
    "not_applicable": na,
}
json.dump(m, open(os.path.join(ROOT, "MANIFEST.json"), "w"), indent=1)
print(len(checks), "checks;", len(na), "not applicable")
