#!/bin/sh
# tools/trymutant.sh <seeded-dir> <property> [tier]  — apply a seeded patch to /repo, run the check, undo.
d=$1; p=$2; t=${3:-quick}
cd /repo && git diff --quiet || { echo "/repo not clean"; exit 2; }
git -C /repo apply "$d/patch.diff" || { echo "patch does not apply"; exit 2; }
cp /verif/evidence/$p.json /tmp/ev.$p.$$ 2>/dev/null
cd /verif && bin/check $p $t; rc=$?
cp /tmp/ev.$p.$$ /verif/evidence/$p.json 2>/dev/null; rm -f /tmp/ev.$p.$$
git -C /repo checkout -- . ; git -C /repo clean -fdq pfcpiface
echo "exit=$rc"
# the run regenerated lean/Upf/Gen from the patched tree: regenerate it from the clean one (the Gen files are committed)
[ -x /verif/work/bin/extract ] && (cd /repo && GOFLAGS=-mod=mod GOPROXY=off /verif/work/bin/extract -repo /repo -out /verif/lean/Upf/Gen >/dev/null 2>&1)
exit $rc
