#!/bin/sh
# tools/thorough_all.sh [ids...] — every thorough tier, one after the other, each under a time limit.
# Do not apply seeded patches to /repo while this runs (every check rebuilds from /repo when it starts).
cd /verif
ids=${*:-$(python3 -c "import sys; sys.path.insert(0,'bin'); from props import PROPS; print(' '.join(sorted(PROPS)))")}
for p in $ids; do
  timeout 5400 bin/check $p thorough > work/thorough.$p.out 2>&1; echo "exit=$?" >> work/thorough.$p.out
done
echo finished > work/thorough.done2
