#!/bin/sh
# tools/sweep.sh <seed>... — quick tier (SWEEP_TIER=thorough for the thorough one) of every property (or of $SWEEP_IDS) under other VERIF_SEED values, run from a snapshot (vp run --with-repo):
# the snapshot's harness / extractor are pointed at $VP_RUN_REPO (a copy of /repo's HEAD), so seeded patches applied to /repo
# meanwhile do not disturb it. Output: sweep.<seed>.txt in the snapshot directory.
here=$(pwd)
repo=${VP_RUN_REPO:-/repo}
sed -i "s#=> /repo#=> $repo#" harness/go.mod extract/go.mod 2>/dev/null
export VERIF_REPO=$repo
python3 bin/check --setup > setup.log 2>&1
ids=${SWEEP_IDS:-$(python3 -c "import sys; sys.path.insert(0,'bin'); from props import PROPS; print(' '.join(sorted(PROPS)))")}
tier=${SWEEP_TIER:-quick}
for s in "$@"; do
  mkdir -p work
  for p in $ids; do (VERIF_SEED=$s timeout ${SWEEP_TIMEOUT:-3600} bin/check $p $tier > work/sweep.$s.$p.out 2>&1; echo "exit=$?" >> work/sweep.$s.$p.out) & done; wait
  for p in $ids; do echo "== $p seed=$s $(grep -v '^KNOWN-FINDING' work/sweep.$s.$p.out | tail -2 | tr '\n' ' ')"; done > sweep.$s.txt
done
echo finished > sweep.done
