#!/bin/sh
# tools/allseeds_snapshot.sh — every kept seeded change against its property's quick check, run from a snapshot (vp run --with-repo):
# patches are applied to the snapshot's copy of /repo ($VP_RUN_REPO), never to /repo. Output: allseeds.txt in the snapshot directory.
repo=${VP_RUN_REPO:-/repo}
sed -i "s#=> /repo#=> $repo#" harness/go.mod extract/go.mod 2>/dev/null
export VERIF_REPO=$repo
python3 bin/check --setup > setup.log 2>&1
out=allseeds.txt; : > $out
for d in seeded/*/; do
  id=$(basename $d); p=${id%-*}
  [ -f $d/patch.diff ] || continue
  if ! git -C $repo apply --check $(pwd)/$d/patch.diff 2>/dev/null; then echo "$id DOES-NOT-APPLY" >> $out; continue; fi
  git -C $repo apply $(pwd)/$d/patch.diff
  r=$(timeout 1500 bin/check $p quick 2>&1 | grep -v '^KNOWN-FINDING' | tail -2 | tr '\n' ' ')
  git -C $repo checkout -- . ; git -C $repo clean -fdq pfcpiface conf 2>/dev/null
  case "$r" in *"VIOLATION"*) v=DETECTED;; *) v=MISSED;; esac
  echo "$id $v :: $(echo $r | cut -c1-220)" >> $out
done
echo done >> $out
