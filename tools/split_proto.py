#!/usr/bin/env python3
"""Split a prototype Lean file into a Model part (definitions) and a Proofs part (theorems).
usage: split_proto.py <proto.lean> <ModelModule> <ProofsModule> [extra model imports...]"""
import sys,re,os
src=open(sys.argv[1]).read().splitlines()
model_mod, proofs_mod = sys.argv[2], sys.argv[3]
extra=sys.argv[4:]
# chunk by blank lines at top level
chunks=[];cur=[]
for l in src:
    if (l.startswith('-- ') or l.startswith('import ')) : continue
    if l.startswith('namespace ') or l.startswith('end ') or l.startswith('open '):
        if cur: chunks.append(cur);cur=[]
        chunks.append([l]); continue
    if l.strip()=='' :
        if cur: chunks.append(cur);cur=[]
    else: cur.append(l)
if cur: chunks.append(cur)
# merge chunks whose first line is indented (continuations)
merged=[]
for c in chunks:
    if merged and (c[0].startswith(' ') or c[0].startswith('\t')): merged[-1]+= ['']+c
    else: merged.append(c)
def kind(c):
    i=0
    # skip doc comment / attributes
    txt='\n'.join(c)
    t=re.sub(r'/--.*?-/','',txt,flags=re.S).strip()
    t=re.sub(r'^@\[[^\]]*\]\s*','',t)
    w=t.split()[0] if t.split() else ''
    return w
M=[];P=[]
ns=None
for c in merged:
    k=kind(c)
    if k.startswith('--') or k=='import' or k.startswith('/-!'): continue
    if k in('namespace','end','open','variable','set_option','section','universe'):
        M.append(c);P.append(c); continue
    if k in('theorem','lemma','example','#print','#eval','#check'):
        P.append(c)
    else:
        M.append(c)
def path(mod): return '/verif/lean/'+mod.replace('.','/')+'.lean'
for mod,body,imps in((model_mod,M,extra),(proofs_mod,P,[model_mod])):
    os.makedirs(os.path.dirname(path(mod)),exist_ok=True)
    with open(path(mod),'w') as f:
        for i in imps: f.write(f'import {i}\n')
        f.write('\n')
        for c in body: f.write('\n'.join(c)+'\n\n')
print('model chunks',len(M),'proof chunks',len(P))
