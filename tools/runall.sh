#!/bin/sh
# run every registered check (tier $1, default quick) on the current tree, in parallel, and summarise
t=${1:-quick}
cd /verif
ids=$(python3 -c "import sys; sys.path.insert(0,'bin'); from props import PROPS; print(' '.join(sorted(PROPS)))")
for p in $ids; do (bin/check $p $t > work/runall.$p.out 2>&1; echo "exit=$?" >> work/runall.$p.out) & done; wait
for p in $ids; do echo "== $p"; grep -v "^KNOWN-FINDING" work/runall.$p.out | tail -2; grep -c "^KNOWN-FINDING" work/runall.$p.out | sed 's/^/known-finding lines: /'; done
