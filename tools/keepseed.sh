#!/bin/sh
# tools/keepseed.sh <seed-dir>  — confirm a seeded change in a scratch worktree of /repo HEAD and keep it under /verif/seeded/<id>/
# (applies, builds, baseline packages pass, demonstration fails with it and passes without it)
d=$1; id=$(basename $d)
export GOFLAGS=-mod=mod GOPROXY=off
wt=/tmp/keepseed.$id
git -C /repo worktree remove --force $wt 2>/dev/null; rm -rf $wt
git -C /repo worktree add -q --detach $wt HEAD || exit 2
patch=$d/patch.diff; [ -f $d/patch.rebased.diff ] && patch=$d/patch.rebased.diff
cd $wt
res="id=$id"
if ! git apply $patch 2>/dev/null; then echo "$id: PATCH DOES NOT APPLY"; git -C /repo worktree remove --force $wt; exit 3; fi
go build ./... || { echo "$id: BUILD FAILS"; git -C /repo worktree remove --force $wt; exit 4; }
suite=$(go test -vet=off -count=1 ./pfcpiface/... ./pkg/... ./cmd/... ./internal/... 2>&1 | grep -c "^FAIL\|^--- FAIL")
for f in $d/*_test.go; do [ -f "$f" ] && cp $f pfcpiface/zz_$(basename $f); done
demo_with=$(go test -vet=off -count=1 -run 'Seed|Demo|C[0-9][0-9]' ./pfcpiface/ 2>&1 | grep -c "^--- FAIL\|^FAIL\|panic:")
git apply -R $patch
demo_without=$(go test -vet=off -count=1 -run 'Seed|Demo|C[0-9][0-9]' ./pfcpiface/ 2>&1 | grep -c "^--- FAIL\|^FAIL\|panic:")
cd /; git -C /repo worktree remove --force $wt
echo "$id: suite_failures_with_patch=$suite demo_fail_lines_with=$demo_with demo_fail_lines_without=$demo_without"
if [ "$suite" = 0 ] && [ "$demo_with" != 0 ] && [ "$demo_without" = 0 ]; then
  mkdir -p /verif/seeded/$id; cp $patch /verif/seeded/$id/patch.diff; cp $d/*_test.go /verif/seeded/$id/ 2>/dev/null
  python3 - "$d/meta.json" "/verif/seeded/$id/meta.json" "$suite" "$demo_with" "$demo_without" <<'PY'
import json,sys,subprocess
m=json.load(open(sys.argv[1]))
head=subprocess.run(['git','-C','/repo','rev-parse','--short','HEAD'],capture_output=True,text=True).stdout.strip()
m['confirmed']={'repo_head':head,'ran':'tools/keepseed.sh: git worktree of /repo HEAD; git apply patch.diff; go build ./...; go test -vet=off ./pfcpiface/... ./pkg/... ./cmd/... ./internal/... (0 failures); demo copied to pfcpiface/ fails with the patch and passes after git apply -R',
 'suite_failures_with_patch':int(sys.argv[3]),'demo_fail_lines_with_patch':int(sys.argv[4]),'demo_fail_lines_without_patch':int(sys.argv[5])}
json.dump(m,open(sys.argv[2],'w'),indent=1)
PY
  echo "$id: KEPT"
else echo "$id: NOT KEPT"; fi
