#!/bin/sh
# tools/seed3.sh <Cxx> <k> — take a round-3 delivery from /tmp/seed3/out/<Cxx>, confirm and keep it as seeded/<Cxx>-<k>, run the check against it
p=$1; k=$2; st=/tmp/seed3/stage/$p-$k
rm -rf $st; mkdir -p $st; cp /tmp/seed3/out/$p/patch.diff /tmp/seed3/out/$p/meta.json $st/; cp /tmp/seed3/out/$p/*_test.go $st/ 2>/dev/null
git -C /repo worktree remove --force /tmp/seed3/$p 2>/dev/null
/verif/tools/keepseed.sh $st || exit 1
[ -d /verif/seeded/$p-$k ] || exit 1
/verif/tools/trymutant.sh /verif/seeded/$p-$k $p ${3:-quick} 2>&1 | tail -4
