#!/bin/sh
# tools/allseeds.sh — run every kept seeded change against its property's check at the current /repo HEAD (one after the other).
# Output: one line per seed in work/allseeds.txt
out=/verif/work/allseeds.txt; : > $out
cd /repo && git diff --quiet || { echo "/repo not clean"; exit 2; }
for d in /verif/seeded/*/; do
  id=$(basename $d); p=${id%-*}
  if ! git -C /repo apply --check $d/patch.diff 2>/dev/null; then echo "$id DOES-NOT-APPLY" >> $out; continue; fi
  r=$(/verif/tools/trymutant.sh $d $p quick 2>&1 | tail -3 | tr '\n' ' ')
  case "$r" in *"exit=1"*) v=DETECTED;; *"exit=0"*) v=MISSED;; *) v=ERROR;; esac
  echo "$id $v :: $(echo $r | cut -c1-260)" >> $out
done
echo done >> $out
