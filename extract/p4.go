package main

import (
	"golang.org/x/tools/go/packages"
)

func p4Facts(repo string, pc *packages.Package, failures *[]string) (string, string) {
	return "namespace Gen.P4Info\nend Gen.P4Info\n", "namespace Gen.P4Constants\nend Gen.P4Constants\n"
}
