package main

// Translation of leaf integer functions of /repo into Lean 4 definitions over BitVec.
// Supported: fixed-width integers, bool, string comparison, struct params/receivers (flattened to the
// fields the body uses), if/else, tag and tagless switch with fallthrough, early return, local
// variables, ++/--, assignments (also to receiver fields: the function then returns the new field
// values), calls to other translated functions/methods, (T, error) results as Option.
// Anything else is an extraction failure (never a guess).

import (
	"fmt"
	"go/ast"
	"go/constant"
	"go/token"
	"go/types"
	"sort"
	"strings"
)

type fnInfo struct {
	key      string // "portRange.Width" or "maxUint64"
	decl     *ast.FuncDecl
	leanName string
	params   []string // lean binder text
	args     []argSpec
	resType  string
	body     string
	err      error
	done     bool
	busy     bool
}

// argSpec says how a caller supplies one Lean argument: either the i-th Go argument itself, or a
// field of the i-th Go argument (i = -1: the receiver).
type argSpec struct {
	goArg int
	field string // "" = the value itself
}

type translator struct {
	info  *types.Info
	fset  *token.FileSet
	funcs map[string]*fnInfo
	order []string
}

type tyInfo struct {
	width  int
	signed bool
	kind   string // "bv", "bool", "string"
}

func (t *translator) tyOf(ty types.Type) (tyInfo, error) {
	switch u := ty.Underlying().(type) {
	case *types.Basic:
		switch u.Kind() {
		case types.Uint8:
			return tyInfo{8, false, "bv"}, nil
		case types.Uint16:
			return tyInfo{16, false, "bv"}, nil
		case types.Uint32:
			return tyInfo{32, false, "bv"}, nil
		case types.Uint64, types.Uint, types.Uintptr:
			return tyInfo{64, false, "bv"}, nil
		case types.Int8:
			return tyInfo{8, true, "bv"}, nil
		case types.Int16:
			return tyInfo{16, true, "bv"}, nil
		case types.Int32:
			return tyInfo{32, true, "bv"}, nil
		case types.Int64, types.Int:
			return tyInfo{64, true, "bv"}, nil
		case types.Bool, types.UntypedBool:
			return tyInfo{0, false, "bool"}, nil
		case types.String, types.UntypedString:
			return tyInfo{0, false, "string"}, nil
		case types.UntypedInt, types.UntypedRune:
			return tyInfo{64, true, "bv"}, nil
		}
	}
	return tyInfo{}, fmt.Errorf("unsupported type %s", ty)
}

func (ti tyInfo) lean() string {
	switch ti.kind {
	case "bool":
		return "Bool"
	case "string":
		return "String"
	}
	return fmt.Sprintf("BitVec %d", ti.width)
}

func lit(v constant.Value, ti tyInfo) (string, error) {
	switch ti.kind {
	case "bool":
		if constant.BoolVal(v) {
			return "true", nil
		}
		return "false", nil
	case "string":
		return fmt.Sprintf("%q", constant.StringVal(v)), nil
	}
	iv := constant.ToInt(v)
	if iv.Kind() != constant.Int {
		return "", fmt.Errorf("non-integer constant %s", v)
	}
	// two's complement into the width
	mod := constant.Shift(constant.MakeInt64(1), token.SHL, uint(ti.width))
	if constant.Sign(iv) < 0 {
		iv = constant.BinaryOp(iv, token.ADD, mod)
	}
	if constant.Compare(iv, token.GEQ, mod) || constant.Sign(iv) < 0 {
		return "", fmt.Errorf("constant %s does not fit %d bits", v, ti.width)
	}
	return fmt.Sprintf("%s#%d", iv.ExactString(), ti.width), nil
}

// env maps Go variable objects / receiver-field paths to Lean variable names.
type env struct {
	t        *translator
	fn       *fnInfo
	vars     map[string]string // go name (or recv.field) -> lean name
	structs  map[string]bool   // go names of struct-typed params (incl. receiver)
	used     map[string]bool   // "param.field" used
	assigned map[string]bool   // "param.field" assigned (receiver fields)
	results  *types.Tuple
	optErr   bool // result is (T, error)
}

func sanitize(s string) string {
	return strings.NewReplacer(".", "_", "*", "").Replace(s)
}

func (e *env) expr(x ast.Expr) (string, tyInfo, error) {
	tv, ok := e.t.info.Types[x]
	if ok && tv.Value != nil {
		ti, err := e.t.tyOf(tv.Type)
		if err != nil {
			return "", ti, err
		}
		s, err := lit(tv.Value, ti)
		return s, ti, err
	}
	switch x := x.(type) {
	case *ast.ParenExpr:
		s, ti, err := e.expr(x.X)
		return "(" + s + ")", ti, err
	case *ast.Ident:
		ti, err := e.t.tyOf(tv.Type)
		if err != nil {
			return "", ti, err
		}
		if x.Name == "true" || x.Name == "false" {
			return x.Name, ti, nil
		}
		if n, ok := e.vars[x.Name]; ok {
			return n, ti, nil
		}
		return "", ti, fmt.Errorf("unknown identifier %s", x.Name)
	case *ast.SelectorExpr:
		if id, ok := x.X.(*ast.Ident); ok && e.structs[id.Name] {
			ti, err := e.t.tyOf(tv.Type)
			if err != nil {
				return "", ti, err
			}
			key := id.Name + "." + x.Sel.Name
			e.used[key] = true
			if n, ok := e.vars[key]; ok {
				return n, ti, nil
			}
			return sanitize(key), ti, nil
		}
		return "", tyInfo{}, fmt.Errorf("unsupported selector %s", types.ExprString(x))
	case *ast.UnaryExpr:
		s, ti, err := e.expr(x.X)
		if err != nil {
			return "", ti, err
		}
		switch x.Op {
		case token.NOT:
			return "(!" + s + ")", ti, nil
		case token.SUB:
			return "(-" + s + ")", ti, nil
		case token.XOR:
			return "(~~~" + s + ")", ti, nil
		}
		return "", ti, fmt.Errorf("unsupported unary %s", x.Op)
	case *ast.BinaryExpr:
		return e.binary(x)
	case *ast.CallExpr:
		return e.call(x)
	}
	return "", tyInfo{}, fmt.Errorf("unsupported expression %s", types.ExprString(x))
}

func (e *env) binary(x *ast.BinaryExpr) (string, tyInfo, error) {
	a, ta, err := e.expr(x.X)
	if err != nil {
		return "", ta, err
	}
	b, tb, err := e.expr(x.Y)
	if err != nil {
		return "", tb, err
	}
	boolT := tyInfo{0, false, "bool"}
	switch x.Op {
	case token.LAND:
		return "(" + a + " && " + b + ")", boolT, nil
	case token.LOR:
		return "(" + a + " || " + b + ")", boolT, nil
	case token.EQL:
		return "(" + a + " == " + b + ")", boolT, nil
	case token.NEQ:
		return "(" + a + " != " + b + ")", boolT, nil
	}
	if ta.kind != "bv" {
		return "", ta, fmt.Errorf("operator %s on %s", x.Op, ta.kind)
	}
	cmp := func(u, s string) (string, tyInfo, error) {
		if ta.signed {
			return "(BitVec." + s + " " + a + " " + b + ")", boolT, nil
		}
		return "(BitVec." + u + " " + a + " " + b + ")", boolT, nil
	}
	switch x.Op {
	case token.LSS:
		return cmp("ult", "slt")
	case token.LEQ:
		return cmp("ule", "sle")
	case token.GTR:
		a, b = b, a
		return cmp("ult", "slt")
	case token.GEQ:
		a, b = b, a
		return cmp("ule", "sle")
	case token.ADD:
		return "(" + a + " + " + b + ")", ta, nil
	case token.SUB:
		return "(" + a + " - " + b + ")", ta, nil
	case token.MUL:
		return "(" + a + " * " + b + ")", ta, nil
	case token.AND:
		return "(" + a + " &&& " + b + ")", ta, nil
	case token.OR:
		return "(" + a + " ||| " + b + ")", ta, nil
	case token.XOR:
		return "(" + a + " ^^^ " + b + ")", ta, nil
	case token.AND_NOT:
		return "(" + a + " &&& ~~~" + b + ")", ta, nil
	case token.QUO:
		if ta.signed {
			return "(BitVec.sdiv " + a + " " + b + ")", ta, nil
		}
		return "(" + a + " / " + b + ")", ta, nil
	case token.REM:
		if ta.signed {
			return "(BitVec.srem " + a + " " + b + ")", ta, nil
		}
		return "(" + a + " % " + b + ")", ta, nil
	case token.SHL:
		return "(" + a + " <<< (" + b + ").toNat)", ta, nil
	case token.SHR:
		if ta.signed {
			return "(BitVec.sshiftRight " + a + " (" + b + ").toNat)", ta, nil
		}
		return "(" + a + " >>> (" + b + ").toNat)", ta, nil
	}
	_ = tb
	return "", ta, fmt.Errorf("unsupported operator %s", x.Op)
}

func (e *env) call(x *ast.CallExpr) (string, tyInfo, error) {
	tv := e.t.info.Types[x.Fun]
	if tv.IsType() { // conversion
		if len(x.Args) != 1 {
			return "", tyInfo{}, fmt.Errorf("bad conversion")
		}
		dst, err := e.t.tyOf(tv.Type)
		if err != nil {
			return "", dst, err
		}
		s, src, err := e.expr(x.Args[0])
		if err != nil {
			return "", src, err
		}
		if dst.kind != "bv" || src.kind != "bv" {
			return "", dst, fmt.Errorf("unsupported conversion")
		}
		if dst.width == src.width {
			return s, dst, nil
		}
		if dst.width < src.width || !src.signed {
			return fmt.Sprintf("(BitVec.setWidth %d %s)", dst.width, s), dst, nil
		}
		return fmt.Sprintf("(BitVec.signExtend %d %s)", dst.width, s), dst, nil
	}
	// call of a translated function or method
	var key string
	var recv ast.Expr
	switch f := x.Fun.(type) {
	case *ast.Ident:
		key = f.Name
	case *ast.SelectorExpr:
		sel := e.t.info.Selections[f]
		if sel == nil {
			return "", tyInfo{}, fmt.Errorf("unsupported call %s", types.ExprString(x.Fun))
		}
		rt := sel.Recv()
		if p, ok := rt.(*types.Pointer); ok {
			rt = p.Elem()
		}
		n, ok := rt.(*types.Named)
		if !ok {
			return "", tyInfo{}, fmt.Errorf("unsupported receiver %s", rt)
		}
		key = n.Obj().Name() + "." + f.Sel.Name
		recv = f.X
	default:
		return "", tyInfo{}, fmt.Errorf("unsupported call")
	}
	callee, ok := e.t.funcs[key]
	if !ok {
		return "", tyInfo{}, fmt.Errorf("call to untranslated function %s", key)
	}
	e.t.translate(callee)
	if callee.err != nil {
		return "", tyInfo{}, fmt.Errorf("callee %s: %v", key, callee.err)
	}
	var sb strings.Builder
	sb.WriteString("(" + callee.leanName)
	for _, a := range callee.args {
		var ge ast.Expr
		if a.goArg < 0 {
			ge = recv
		} else {
			ge = x.Args[a.goArg]
		}
		if a.field == "" {
			s, _, err := e.expr(ge)
			if err != nil {
				return "", tyInfo{}, err
			}
			sb.WriteString(" " + s)
		} else {
			id, ok := ge.(*ast.Ident)
			if !ok || !e.structs[id.Name] {
				return "", tyInfo{}, fmt.Errorf("struct argument must be a parameter")
			}
			k := id.Name + "." + a.field
			e.used[k] = true
			if n, ok := e.vars[k]; ok {
				sb.WriteString(" " + n)
			} else {
				sb.WriteString(" " + sanitize(k))
			}
		}
	}
	sb.WriteString(")")
	rt := e.t.info.Types[x].Type
	ti, err := e.t.tyOf(rt)
	if err != nil {
		return sb.String(), tyInfo{0, false, "other"}, nil
	}
	return sb.String(), ti, nil
}

func terminates(stmts []ast.Stmt) bool {
	if len(stmts) == 0 {
		return false
	}
	switch s := stmts[len(stmts)-1].(type) {
	case *ast.ReturnStmt:
		return true
	case *ast.BlockStmt:
		return terminates(s.List)
	case *ast.IfStmt:
		if s.Else == nil {
			return false
		}
		var el []ast.Stmt
		switch e := s.Else.(type) {
		case *ast.BlockStmt:
			el = e.List
		default:
			el = []ast.Stmt{e}
		}
		return terminates(s.Body.List) && terminates(el)
	}
	return false
}

// stmts translates a statement list followed by continuation k into one Lean expression.
func (e *env) stmts(list []ast.Stmt, ind string) (string, error) {
	if len(list) == 0 {
		return e.implicitReturn()
	}
	s, rest := list[0], list[1:]
	switch s := s.(type) {
	case *ast.ReturnStmt:
		return e.ret(s)
	case *ast.BlockStmt:
		return e.stmts(append(append([]ast.Stmt{}, s.List...), rest...), ind)
	case *ast.EmptyStmt:
		return e.stmts(rest, ind)
	case *ast.DeclStmt:
		gd, ok := s.Decl.(*ast.GenDecl)
		if !ok || gd.Tok != token.VAR {
			return "", fmt.Errorf("unsupported declaration")
		}
		var sb strings.Builder
		for _, sp := range gd.Specs {
			vs := sp.(*ast.ValueSpec)
			for i, n := range vs.Names {
				obj := e.t.info.Defs[n]
				ti, err := e.t.tyOf(obj.Type())
				if err != nil {
					return "", err
				}
				val := ""
				if len(vs.Values) > i {
					val, _, err = e.expr(vs.Values[i])
					if err != nil {
						return "", err
					}
				} else {
					switch ti.kind {
					case "bool":
						val = "false"
					case "string":
						val = `""`
					default:
						val = fmt.Sprintf("0#%d", ti.width)
					}
				}
				e.vars[n.Name] = n.Name
				fmt.Fprintf(&sb, "%slet %s : %s := %s\n", ind, n.Name, ti.lean(), val)
			}
		}
		r, err := e.stmts(rest, ind)
		return sb.String() + r, err
	case *ast.AssignStmt:
		if len(s.Lhs) != 1 || len(s.Rhs) != 1 {
			return "", fmt.Errorf("unsupported multi-assignment")
		}
		rhs, rti, err := e.expr(s.Rhs[0])
		if err != nil {
			return "", err
		}
		name, key, err := e.lhs(s.Lhs[0])
		if err != nil {
			return "", err
		}
		switch s.Tok {
		case token.ASSIGN, token.DEFINE:
		default:
			cur := e.vars[key]
			if cur == "" {
				cur = name
			}
			op := map[token.Token]string{token.ADD_ASSIGN: "+", token.SUB_ASSIGN: "-", token.MUL_ASSIGN: "*", token.OR_ASSIGN: "|||", token.AND_ASSIGN: "&&&", token.XOR_ASSIGN: "^^^"}[s.Tok]
			if op == "" {
				if s.Tok == token.SHL_ASSIGN {
					rhs = "(" + cur + " <<< (" + rhs + ").toNat)"
				} else {
					return "", fmt.Errorf("unsupported assignment %s", s.Tok)
				}
			} else {
				rhs = "(" + cur + " " + op + " " + rhs + ")"
			}
		}
		_ = rti
		line := fmt.Sprintf("%slet %s := %s\n", ind, name, rhs)
		e.vars[key] = name
		r, err := e.stmts(rest, ind)
		return line + r, err
	case *ast.IncDecStmt:
		name, key, err := e.lhs(s.X)
		if err != nil {
			return "", err
		}
		cur, ti, err := e.expr(s.X)
		if err != nil {
			return "", err
		}
		op := "+"
		if s.Tok == token.DEC {
			op = "-"
		}
		line := fmt.Sprintf("%slet %s := (%s %s 1#%d)\n", ind, name, cur, op, ti.width)
		e.vars[key] = name
		r, err := e.stmts(rest, ind)
		return line + r, err
	case *ast.IfStmt:
		if s.Init != nil {
			return "", fmt.Errorf("unsupported if-init")
		}
		c, _, err := e.expr(s.Cond)
		if err != nil {
			return "", err
		}
		thenList := append(append([]ast.Stmt{}, s.Body.List...), rest...)
		if terminates(s.Body.List) {
			thenList = s.Body.List
		}
		var elseList []ast.Stmt
		switch el := s.Else.(type) {
		case nil:
			elseList = rest
		case *ast.BlockStmt:
			elseList = append(append([]ast.Stmt{}, el.List...), rest...)
			if terminates(el.List) {
				elseList = el.List
			}
		default:
			elseList = append([]ast.Stmt{el}, rest...)
		}
		saved := copyMap(e.vars)
		a, err := e.stmts(thenList, ind+"  ")
		if err != nil {
			return "", err
		}
		e.vars = copyMap(saved)
		b, err := e.stmts(elseList, ind+"  ")
		if err != nil {
			return "", err
		}
		e.vars = saved
		return fmt.Sprintf("%sif %s then\n%s\n%selse\n%s", ind, c, strings.TrimRight(a, "\n"), ind, strings.TrimRight(b, "\n")), nil
	case *ast.SwitchStmt:
		return e.switchStmt(s, rest, ind)
	case *ast.ExprStmt:
		return "", fmt.Errorf("unsupported expression statement %s", types.ExprString(s.X))
	}
	return "", fmt.Errorf("unsupported statement %T", s)
}

func copyMap(m map[string]string) map[string]string {
	c := make(map[string]string, len(m))
	for k, v := range m {
		c[k] = v
	}
	return c
}

func (e *env) lhs(x ast.Expr) (name, key string, err error) {
	switch x := x.(type) {
	case *ast.Ident:
		if _, ok := e.vars[x.Name]; !ok {
			e.vars[x.Name] = x.Name
		}
		return x.Name, x.Name, nil
	case *ast.SelectorExpr:
		if id, ok := x.X.(*ast.Ident); ok && e.structs[id.Name] {
			k := id.Name + "." + x.Sel.Name
			e.assigned[k] = true
			e.used[k] = true
			return sanitize(k) + "'", k, nil
		}
	}
	return "", "", fmt.Errorf("unsupported assignment target %s", types.ExprString(x))
}

func (e *env) switchStmt(s *ast.SwitchStmt, rest []ast.Stmt, ind string) (string, error) {
	if s.Init != nil {
		return "", fmt.Errorf("unsupported switch-init")
	}
	tag := ""
	if s.Tag != nil {
		var err error
		tag, _, err = e.expr(s.Tag)
		if err != nil {
			return "", err
		}
	}
	clauses := s.Body.List
	// bodies with fallthrough resolved
	bodies := make([][]ast.Stmt, len(clauses))
	for i := len(clauses) - 1; i >= 0; i-- {
		cc := clauses[i].(*ast.CaseClause)
		b := append([]ast.Stmt{}, cc.Body...)
		if n := len(b); n > 0 {
			if br, ok := b[n-1].(*ast.BranchStmt); ok && br.Tok == token.FALLTHROUGH {
				b = append(b[:n-1], bodies[i+1]...)
			}
		}
		bodies[i] = b
	}
	defIdx := -1
	var conds []string
	var idxs []int
	for i, c := range clauses {
		cc := c.(*ast.CaseClause)
		if cc.List == nil {
			defIdx = i
			continue
		}
		var parts []string
		for _, v := range cc.List {
			vs, _, err := e.expr(v)
			if err != nil {
				return "", err
			}
			if tag != "" {
				parts = append(parts, "("+tag+" == "+vs+")")
			} else {
				parts = append(parts, vs)
			}
		}
		conds = append(conds, strings.Join(parts, " || "))
		idxs = append(idxs, i)
	}
	var sb strings.Builder
	saved := copyMap(e.vars)
	cur := ind
	for k, c := range conds {
		body := bodies[idxs[k]]
		list := append(append([]ast.Stmt{}, body...), rest...)
		if terminates(body) {
			list = body
		}
		e.vars = copyMap(saved)
		a, err := e.stmts(list, cur+"  ")
		if err != nil {
			return "", err
		}
		fmt.Fprintf(&sb, "%sif %s then\n%s\n%selse\n", cur, c, strings.TrimRight(a, "\n"), cur)
		cur += "  "
	}
	var list []ast.Stmt
	if defIdx >= 0 {
		list = append(append([]ast.Stmt{}, bodies[defIdx]...), rest...)
		if terminates(bodies[defIdx]) {
			list = bodies[defIdx]
		}
	} else {
		list = rest
	}
	e.vars = copyMap(saved)
	a, err := e.stmts(list, cur)
	if err != nil {
		return "", err
	}
	e.vars = saved
	sb.WriteString(strings.TrimRight(a, "\n"))
	return sb.String(), nil
}

func (e *env) implicitReturn() (string, error) {
	if e.results.Len() != 0 {
		return "", fmt.Errorf("missing return")
	}
	return e.recvTuple(), nil
}

// recvTuple is the value of a function without results: the final values of assigned struct fields.
func (e *env) recvTuple() string {
	keys := make([]string, 0, len(e.assigned))
	for k := range e.assigned {
		keys = append(keys, k)
	}
	sort.Strings(keys)
	if len(keys) == 0 {
		return "()"
	}
	var parts []string
	for _, k := range keys {
		if n, ok := e.vars[k]; ok {
			parts = append(parts, n)
		} else {
			parts = append(parts, sanitize(k))
		}
	}
	if len(parts) == 1 {
		return "  " + parts[0]
	}
	return "  (" + strings.Join(parts, ", ") + ")"
}

func (e *env) ret(s *ast.ReturnStmt) (string, error) {
	if e.results.Len() == 0 {
		return e.recvTuple(), nil
	}
	if e.optErr {
		if len(s.Results) != 2 {
			return "", fmt.Errorf("unsupported return arity")
		}
		if id, ok := s.Results[1].(*ast.Ident); ok && id.Name == "nil" {
			v, _, err := e.expr(s.Results[0])
			if err != nil {
				return "", err
			}
			return "  some " + v, nil
		}
		return "  none", nil
	}
	if len(s.Results) == 1 {
		if cl, ok := s.Results[0].(*ast.CompositeLit); ok {
			return e.structLit(cl)
		}
		v, _, err := e.expr(s.Results[0])
		if err != nil {
			return "", err
		}
		return "  " + v, nil
	}
	var parts []string
	for _, r := range s.Results {
		v, _, err := e.expr(r)
		if err != nil {
			return "", err
		}
		parts = append(parts, v)
	}
	return "  (" + strings.Join(parts, ", ") + ")", nil
}

func (e *env) structLit(cl *ast.CompositeLit) (string, error) {
	st, ok := e.t.info.Types[cl].Type.Underlying().(*types.Struct)
	if !ok {
		return "", fmt.Errorf("unsupported composite literal")
	}
	vals := make([]string, st.NumFields())
	for i := 0; i < st.NumFields(); i++ {
		ti, err := e.t.tyOf(st.Field(i).Type())
		if err != nil {
			return "", err
		}
		vals[i] = fmt.Sprintf("0#%d", ti.width)
		if ti.kind == "bool" {
			vals[i] = "false"
		}
	}
	for i, el := range cl.Elts {
		if kv, ok := el.(*ast.KeyValueExpr); ok {
			name := kv.Key.(*ast.Ident).Name
			v, _, err := e.expr(kv.Value)
			if err != nil {
				return "", err
			}
			for j := 0; j < st.NumFields(); j++ {
				if st.Field(j).Name() == name {
					vals[j] = v
				}
			}
		} else {
			v, _, err := e.expr(el)
			if err != nil {
				return "", err
			}
			vals[i] = v
		}
	}
	return "  (" + strings.Join(vals, ", ") + ")", nil
}

func structOf(ty types.Type) *types.Struct {
	if p, ok := ty.(*types.Pointer); ok {
		ty = p.Elem()
	}
	st, _ := ty.Underlying().(*types.Struct)
	return st
}

func (t *translator) translate(f *fnInfo) {
	if f.done || f.busy {
		return
	}
	f.busy = true
	defer func() { f.busy = false; f.done = true }()
	d := f.decl
	obj := t.info.Defs[d.Name].(*types.Func)
	sig := obj.Type().(*types.Signature)
	e := &env{t: t, fn: f, vars: map[string]string{}, structs: map[string]bool{}, used: map[string]bool{}, assigned: map[string]bool{}, results: sig.Results()}
	if sig.Results().Len() == 2 && sig.Results().At(1).Type().String() == "error" {
		e.optErr = true
	}
	type par struct {
		name string
		ty   types.Type
		idx  int
	}
	var pars []par
	if sig.Recv() != nil {
		pars = append(pars, par{sig.Recv().Name(), sig.Recv().Type(), -1})
	}
	for i := 0; i < sig.Params().Len(); i++ {
		p := sig.Params().At(i)
		pars = append(pars, par{p.Name(), p.Type(), i})
	}
	for _, p := range pars {
		if structOf(p.ty) != nil {
			e.structs[p.name] = true
		} else {
			e.vars[p.name] = p.name
		}
	}
	body, err := e.stmts(d.Body.List, "  ")
	if err != nil {
		f.err = fmt.Errorf("%s: %v", t.fset.Position(d.Pos()), err)
		return
	}
	f.body = body
	// binders: scalar params, and used fields of struct params in declaration order
	for _, p := range pars {
		if st := structOf(p.ty); st != nil {
			for i := 0; i < st.NumFields(); i++ {
				k := p.name + "." + st.Field(i).Name()
				if e.used[k] {
					ti, err := t.tyOf(st.Field(i).Type())
					if err != nil {
						f.err = err
						return
					}
					f.params = append(f.params, fmt.Sprintf("(%s : %s)", sanitize(k), ti.lean()))
					f.args = append(f.args, argSpec{p.idx, st.Field(i).Name()})
				}
			}
			continue
		}
		ti, err := t.tyOf(p.ty)
		if err != nil {
			f.err = fmt.Errorf("%s: parameter %s: %v", f.key, p.name, err)
			return
		}
		f.params = append(f.params, fmt.Sprintf("(%s : %s)", p.name, ti.lean()))
		f.args = append(f.args, argSpec{p.idx, ""})
	}
	t.order = append(t.order, f.key)
}

func (t *translator) emit(f *fnInfo) string {
	return fmt.Sprintf("/-- generated from `%s` (%s) -/\ndef %s %s :=\n%s\n", f.key, t.fset.Position(f.decl.Pos()), f.leanName, strings.Join(f.params, " "), f.body)
}
