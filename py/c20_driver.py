#!/usr/bin/env python3
"""C20 runner: drives the real conf/route_control.py (RouteController + BessController, unmodified,
loaded by path from $VERIF_REPO) with netlink-shaped messages against a fake BESS daemon client and a
scripted NDB, and records the module graph after every event.  It decides nothing: deciding is done by
the Lean acceptor lean/Check/C20.lean.

usage: c20_driver.py C20 <quick|thorough> <seed> <trace-path>

pyroute2, pybess and scapy are not installed here; stub modules are put into sys.modules before the
import.  The stand-in sits one level below the authors' own BessControllerMock: the *real*
BessController (with its retry loops, SLEEP_S set to 0 on the instance's class) talks to `FakeBESS`,
which keeps the module graph the way bessd would (modules by name, IPLookup tables keyed by
(prefix, length), one connection per output gate) and rejects what bessd rejects (EEXIST on a second
module of one name, ENOENT on destroying / connecting / commanding a missing module, EBUSY on a
connected output gate, an error on deleting an absent prefix).  Every rejected command is counted.

Universe: prefixes P0 = default route (dst_len 0, no RTA_DST), P1 = 10.250.0.0/16, P2 = 192.168.76.0/24;
next hops H0..H2 with distinct MACs; interfaces I0 = access, I1 = core.  Each next hop is on-link on
exactly one interface (header of every line); the kernel holds at most one route per (interface,
prefix); it never adds a route it has and deletes only routes it has.

Two next hops may have the same MAC when they are on different interfaces (one router
seen from both sides, as in docs/images/pipeline.svg); on one interface MACs are distinct.

Trace line (space separated):
  seq <if(H0)> <if(H1)> <if(H2)> <known0(H0)> <known0(H1)> <known0(H2)> <mac(H0)> <mac(H1)> <mac(H2)>
      (mac = index into the MAC table: equal numbers = equal MAC)
      { | <event> : <nR> {<if> <pfx> <gate>}*nR <nU> {<if> <nh> <gate> <flags>}*nU <nErr> }*
  event   = N <pfx> <nh> <if>   RTM_NEWROUTE      | D <pfx> <nh> <if>   RTM_DELROUTE   | G <nh>   RTM_NEWNEIGH
  routes  = entries of the interface's IPLookup table, sorted
  modules = existing Update modules, sorted; <gate> = the output gate of <if>Routes connected to it
            (9999 none, 9998 several); flags: 1 = connected on to <if>Merge, 2 = rewrites to this next hop's MAC;
            a module whose name is neither <if>DstMAC<MAC> nor <if>RoutesDstMAC<MAC> for the MAC of a next hop
            is written as `9 9 <gate> <flags>`
  nErr    = commands the fake daemon rejected while this event was handled
"""
import errno
import hashlib
import importlib.util
import json
import logging
import multiprocessing
import os
import random
import sys
import time
import types

IFACES = ["access", "core"]
IFINDEX = {"access": 2, "core": 3}
PREFIXES = [("0.0.0.0", 0), ("10.250.0.0", 16), ("192.168.76.0", 24)]
NEXTHOPS = ["198.18.0.1", "198.18.0.2", "198.19.0.1"]
MACS = ["02:00:00:aa:00:01", "02:00:00:aa:00:02", "02:00:00:bb:00:01"]
MAX_GATES = 8192
NO_GATE, MANY_GATES = 9999, 9998


# --------------------------------------------------------------------------- fake bessd client

class FakeBESS:
    """What pybess.bess.BESS offers to route_control.py, backed by an in-memory module graph."""

    class Error(Exception):
        def __init__(self, code, errmsg="", **kw):
            super().__init__(code, errmsg)
            self.code = code
            self.errmsg = errmsg

    class RPCError(Exception):
        pass

    class APIError(Exception):
        pass

    current = None   # the most recently created client (the one the controller under test holds)

    def __init__(self):
        self.modules = {}     # name -> (class, arg)
        self.tables = {}      # IPLookup module -> {(prefix, len): gate}
        self.links = {}       # (module, ogate) -> (next module, igate)
        self.paused = 0
        self.rejected = 0
        self.calls = 0
        for ifc in IFACES:    # what conf/ports.py sets up before the controller starts
            self.modules[ifc + "Routes"] = ("IPLookup", None)
            self.tables[ifc + "Routes"] = {}
            self.modules[ifc + "Merge"] = ("Merge", None)
        FakeBESS.current = self

    # connection management
    def is_connected(self):
        return True

    def connect(self, grpc_url=None):
        return None

    def pause_all(self):
        self.paused += 1

    def resume_all(self):
        self.paused -= 1

    def _reject(self, code, msg):
        self.rejected += 1
        raise FakeBESS.Error(code, msg)

    def _need_pause(self):
        if self.paused <= 0:
            self._reject(errno.EBUSY, "workers are running")

    # module graph
    def create_module(self, mclass, name=None, arg=None):
        self.calls += 1
        self._need_pause()
        if name in self.modules:
            self._reject(errno.EEXIST, "Module %s exists" % name)
        self.modules[name] = (mclass, arg)
        if mclass == "IPLookup":
            self.tables[name] = {}

    def destroy_module(self, name):
        self.calls += 1
        self._need_pause()
        if name not in self.modules:
            self._reject(errno.ENOENT, "No module %s found" % name)
        del self.modules[name]
        self.tables.pop(name, None)
        for k in [k for k, v in self.links.items() if k[0] == name or v[0] == name]:
            del self.links[k]

    def connect_modules(self, m1, m2, ogate=0, igate=0):
        self.calls += 1
        self._need_pause()
        for m in (m1, m2):
            if m not in self.modules:
                self._reject(errno.ENOENT, "No module %s found" % m)
        if not (0 <= ogate < MAX_GATES):
            self._reject(errno.EINVAL, "bad output gate")
        if (m1, ogate) in self.links:
            self._reject(errno.EBUSY, "output gate %s:%d is connected" % (m1, ogate))
        self.links[(m1, ogate)] = (m2, igate)

    def run_module_command(self, name, cmd, arg_type, arg):
        self.calls += 1
        self._need_pause()
        if name not in self.modules:
            self._reject(errno.ENOENT, "No module %s found" % name)
        if self.modules[name][0] != "IPLookup":
            self._reject(errno.EINVAL, "module %s has no command %s" % (name, cmd))
        tab = self.tables[name]
        key = (arg["prefix"], int(arg["prefix_len"]))
        if cmd == "add" and arg_type == "IPLookupCommandAddArg":
            gate = arg["gate"]
            if not (isinstance(gate, int) and 0 <= gate < MAX_GATES):
                self._reject(errno.EINVAL, "Invalid gate")
            tab[key] = gate            # rte_lpm_add replaces the next hop of an existing rule
        elif cmd == "delete" and arg_type == "IPLookupCommandDeleteArg":
            if key not in tab:
                self._reject(errno.EINVAL, "rpm_lpm_delete() failed")
            del tab[key]
        else:
            self._reject(errno.EINVAL, "unknown command")


def install_stubs():
    def mod(name, **attrs):
        m = types.ModuleType(name)
        m.__dict__.update(attrs)
        sys.modules[name] = m
        return m

    class NDB:        # only used as a type annotation by route_control.py
        pass

    class IPRoute:
        pass

    class rtmsg:
        pass

    class ndmsg:
        pass

    mod("pyroute2", NDB=NDB, IPRoute=IPRoute)
    mod("pyroute2.netlink")
    mod("pyroute2.netlink.rtnl")
    mod("pyroute2.netlink.rtnl.rtmsg", rtmsg=rtmsg)
    mod("pyroute2.netlink.rtnl.ndmsg", ndmsg=ndmsg)
    mod("pybess")
    mod("pybess.bess", BESS=FakeBESS, errno=errno)   # route_control.py gets `errno` through this star import

    class _Pkt:
        def __init__(self, *a, **kw):
            self.kw = kw

        def __truediv__(self, other):
            return self

    pings = []

    def send(pkt, *a, **kw):
        pings.append(pkt)

    mod("scapy")
    mod("scapy.all", IP=_Pkt, ICMP=_Pkt, send=send)
    return pings


def load_route_control(repo):
    path = os.path.join(repo, "conf", "route_control.py")
    spec = importlib.util.spec_from_file_location("route_control_under_test", path)
    m = importlib.util.module_from_spec(spec)
    sys.modules["route_control_under_test"] = m
    spec.loader.exec_module(m)
    return m, path


# --------------------------------------------------------------------------- scripted kernel / NDB

class ScriptedNDB:
    """ndb.interfaces[idx].get('ifname') and ndb.neighbours.dump(), nothing else."""

    class _Neigh:
        def __init__(self):
            self.rows = []

        def dump(self):
            return list(self.rows)

    def __init__(self, known, macs):
        self.interfaces = {IFINDEX[n]: {"ifname": n} for n in IFACES}
        self.interfaces[1] = {"ifname": "lo"}
        self.neighbours = ScriptedNDB._Neigh()
        self.macs = macs
        for h in known:
            self.learn(h)

    def learn(self, h):
        if not any(r["dst"] == NEXTHOPS[h] for r in self.neighbours.rows):
            self.neighbours.rows.append({"ifindex": 0, "dst": NEXTHOPS[h], "lladdr": MACS[self.macs[h]]})

    def forget(self, h):
        # the neighbour entry ages out of the kernel's table (the controller ignores RTM_DELNEIGH)
        self.neighbours.rows = [r for r in self.neighbours.rows if r["dst"] != NEXTHOPS[h]]


def route_msg(event, p, h, i):
    prefix, plen = PREFIXES[p]
    attrs = [("RTA_TABLE", 254), ("RTA_PRIORITY", 100), ("RTA_GATEWAY", NEXTHOPS[h]), ("RTA_OIF", IFINDEX[IFACES[i]])]
    if plen != 0:
        attrs.append(("RTA_DST", prefix))
    return {"family": 2, "dst_len": plen, "flags": 0, "attrs": attrs, "event": event,
            "header": {"length": 68, "type": 24, "target": "localhost"}}


V6_GW = "fe80::1"


def v6_route_msg(event, i):
    """the IPv6 default route of a managed interface (dst_len 0, no RTA_DST): another address family, nothing for the controller"""
    return {"family": 10, "dst_len": 0, "flags": 0, "event": event,
            "attrs": [("RTA_TABLE", 254), ("RTA_PRIORITY", 1024), ("RTA_GATEWAY", V6_GW), ("RTA_OIF", IFINDEX[IFACES[i]])],
            "header": {"length": 68, "type": 24, "target": "localhost"}}


def v6_neigh_msg():
    return {"family": 10, "ifindex": 0, "state": 2, "event": "RTM_NEWNEIGH",
            "attrs": [("NDA_DST", V6_GW), ("NDA_LLADDR", "02:00:00:00:06:01")]}


def neigh_msg(h, mac):
    return {"family": 2, "ifindex": 0, "state": 2, "event": "RTM_NEWNEIGH",
            "attrs": [("NDA_DST", NEXTHOPS[h]), ("NDA_LLADDR", mac)]}


class World:
    """One fresh controller + daemon + kernel view."""

    def __init__(self, rc, known0, ifmap, macs):
        self.rc = rc
        self.ifmap = ifmap
        self.macs = macs
        self.ndb = ScriptedNDB(known0, macs)
        bc = rc.BessController("localhost", "10514")     # real class; connects to FakeBESS()
        self.bess = FakeBESS.current
        self.ctl = rc.RouteController(bess_controller=bc, ndb=self.ndb, ipr=None, interfaces=list(IFACES))
        self.noise = False
        self.nstep = 0

    def apply(self, ev):
        before = self.bess.rejected
        if self.noise:
            # what a dual-stack host delivers in between: the IPv6 default route of the interface comes, its gateway resolves …
            self.ctl._netlink_route_handler(None, v6_route_msg("RTM_NEWROUTE", self.nstep % len(IFACES)))
            self.ctl._netlink_neighbor_handler(None, v6_neigh_msg())
        self._apply(ev)
        if self.noise:
            # … and goes again
            self.ctl._netlink_route_handler(None, v6_route_msg("RTM_DELROUTE", self.nstep % len(IFACES)))
            self.nstep += 1
        return self.bess.rejected - before

    def _apply(self, ev):
        if ev[0] == "N":
            self.ctl._netlink_route_handler(None, route_msg("RTM_NEWROUTE", ev[1], ev[2], ev[3]))
        elif ev[0] == "D":
            self.ctl._netlink_route_handler(None, route_msg("RTM_DELROUTE", ev[1], ev[2], ev[3]))
        elif ev[0] == "F":
            self.ndb.forget(ev[1])
        else:
            self.ndb.learn(ev[1])       # the kernel's neighbour table has the entry when the event is delivered
            self.ctl._netlink_neighbor_handler(None, neigh_msg(ev[1], MACS[self.macs[ev[1]]]))

    def graph(self, nerr):
        b = self.bess
        routes = []
        for i, ifc in enumerate(IFACES):
            for (prefix, plen), gate in b.tables.get(ifc + "Routes", {}).items():
                p = PREFIXES.index((prefix, plen)) if (prefix, plen) in PREFIXES else 99
                routes.append((i, p, gate))
        routes.sort()
        mods = []
        for name, (cls, arg) in b.modules.items():
            if cls != "Update":
                continue
            i, h = 9, 9
            for ii, ifc in enumerate(IFACES):
                for hh in range(len(NEXTHOPS)):
                    machex = MACS[self.macs[hh]].replace(":", "").upper()
                    if name in (ifc + "DstMAC" + machex, ifc + "RoutesDstMAC" + machex):
                        if i == 9 or self.ifmap[hh] == ii:     # equal MACs: the next hop that lives on this interface
                            i, h = ii, hh
            own = IFACES[i] if i < 9 else None
            gates = [k[1] for k, v in b.links.items() if v == (name, 0) and (own is None or k[0] == own + "Routes")]
            gate = gates[0] if len(gates) == 1 else (NO_GATE if not gates else MANY_GATES)
            flags = 0
            if own is not None and b.links.get((name, 0)) == (own + "Merge", 0):
                flags |= 1
            try:
                val = arg["fields"][0]
                if h < 9 and (val["offset"], val["size"], val["value"]) == (0, 6, int(MACS[self.macs[h]].replace(":", ""), 16)):
                    flags |= 2
            except Exception:
                pass
            mods.append((i, h, gate, flags))
        mods.sort()
        out = [str(len(routes))] + ["%d %d %d" % r for r in routes]
        out += [str(len(mods))] + ["%d %d %d %d" % m for m in mods]
        out.append(str(nerr))
        return " ".join(out)


def ev_str(ev):
    return " ".join(str(x) for x in ev)


def enabled_events(kernel, ifmap):
    """Events the kernel can deliver in a state where it holds `kernel` (dict (if, pfx) -> nh)."""
    evs = []
    for p in range(len(PREFIXES)):
        for h in range(len(NEXTHOPS)):
            i = ifmap[h]
            if (i, p) not in kernel:
                evs.append(("N", p, h, i))
    for (i, p), h in sorted(kernel.items()):
        evs.append(("D", p, h, i))
    for h in range(len(NEXTHOPS)):
        evs.append(("G", h))
    return evs


def kernel_after(kernel, ev):
    k = dict(kernel)
    if ev[0] == "N":
        k[(ev[3], ev[1])] = ev[2]
    elif ev[0] == "D":
        del k[(ev[3], ev[1])]
    return k


def run_sequence(rc, ifmap, known0, macs, evs, noise=False):
    w = World(rc, [h for h in range(len(NEXTHOPS)) if known0[h]], ifmap, macs)
    w.noise = noise
    parts = ["seq " + " ".join(map(str, ifmap)) + " " + " ".join(str(int(b)) for b in known0)
             + " " + " ".join(map(str, macs))]
    for ev in evs:
        nerr = w.apply(ev)
        parts.append(ev_str(ev) + " : " + w.graph(nerr))
    return " | ".join(parts)


def all_sequences(ifmap, length, prefix=()):
    """Every event sequence of exactly `length` events that starts with `prefix` and respects the kernel's
    discipline (every shorter sequence is a prefix of one of these, and the graph is recorded after every event)."""
    kernel = {}
    for ev in prefix:
        kernel = kernel_after(kernel, ev)

    def rec(kernel, cur):
        if len(cur) == length:
            yield list(cur)
            return
        for ev in enabled_events(kernel, ifmap):
            cur.append(ev)
            yield from rec(kernel_after(kernel, ev), cur)
            cur.pop()
    yield from rec(kernel, list(prefix))


def random_sequence(rng, ifmap, maxlen):
    n = rng.randint(1, maxlen)
    kernel, evs = {}, []
    # bias: a sequence-wide preference so that some runs are add-heavy, some churn
    wdel = rng.choice([1, 2, 4])
    wng = rng.choice([1, 1, 3])
    for _ in range(n):
        cands = enabled_events(kernel, ifmap)
        weights = [(3 if e[0] == "N" else wdel * 3 if e[0] == "D" else wng * 2) for e in cands]
        ev = rng.choices(cands, weights)[0]
        evs.append(ev)
        kernel = kernel_after(kernel, ev)
    return evs


def classify(evs, ifmap):
    """Input-distribution class of a sequence (a statement about the inputs only)."""
    kernel, known, cls = {}, set(), set()
    waiting = {}
    for ev in evs:
        if ev[0] == "N":
            if ev[2] in known:
                cls.add("add-resolved")
            else:
                waiting.setdefault(ev[2], set()).add((ev[3], ev[1]))
                if len(waiting[ev[2]]) >= 2:
                    cls.add("several-waiting-on-one-nh")
            if sum(1 for h in kernel.values() if h == ev[2]) >= 1:
                cls.add("several-routes-per-nh")
        elif ev[0] == "D":
            if ev[2] not in known:
                cls.add("delete-unresolved")
                waiting.get(ev[2], set()).discard((ev[3], ev[1]))
            elif sum(1 for h in kernel.values() if h == ev[2]) == 1:
                cls.add("delete-last-of-nh")
            else:
                cls.add("delete-one-of-many")
        else:
            if waiting.get(ev[1]):
                cls.add("neigh-resolves-waiting")
            elif ev[1] in known:
                cls.add("neigh-repeat")
            known.add(ev[1])
            waiting.pop(ev[1], None)
        kernel = kernel_after(kernel, ev)
    return cls


RC = None   # the loaded route_control module (inherited by forked workers)


def do_chunk(task):
    """Run one chunk of sequences against fresh controllers; returns the trace text and the counters."""
    family, items = task
    if family.startswith("exhaustive"):
        ifmap, prefix, length = items
        items = ((ifmap, (False,) * len(NEXTHOPS), (0, 1, 2), evs) for evs in all_sequences(ifmap, length, prefix))
    lines, hist, hashes, nontriv, samples = [], {}, [], [], []
    steps = 0
    for ifmap, known0, macs, evs in items:
        # sequences of the random and scripted families are interleaved with IPv6 events (another family: no effect on the graph)
        line = run_sequence(RC, ifmap, known0, macs, evs, noise=not family.startswith("exhaustive"))
        lines.append(line)
        steps += len(evs)
        cls = classify(evs, ifmap) or {"no-route-installed-or-waiting"}
        if len(set(macs)) < len(macs):
            cls.add("same-mac-on-two-interfaces")
        for c in cls:
            hist[c] = hist.get(c, 0) + 1
        hashes.append(hashlib.blake2b(line.encode(), digest_size=8).digest())
        # non-trivial: at some point at least one route is in a lookup table (nR > 0 after some event)
        nontriv.append(any(seg.split(" : ")[1].split(" ")[0] != "0" for seg in line.split(" | ")[1:]))
        if len(samples) < 2 and nontriv[-1] and len(evs) <= 8:
            samples.append(line)
    return family, "".join(l + "\n" for l in lines), len(lines), steps, hist, hashes, nontriv, samples


def main():
    global RC
    if len(sys.argv) != 5:
        print(__doc__)
        return 2
    pid, tier, seed, trace = sys.argv[1], sys.argv[2], int(sys.argv[3]), sys.argv[4]
    repo = os.environ.get("VERIF_REPO", "/repo")
    t0 = time.time()
    install_stubs()
    RC, path = load_route_control(repo)
    logging.disable(logging.CRITICAL)          # the module logs every step at INFO
    RC.BessController.SLEEP_S = 0              # retry pause of the real wrapper (a class constant, not logic)

    rng = random.Random(seed)
    quick = tier == "quick"
    exh_a = int(os.environ.get("C20_EXH_LEN", "5" if quick else "6"))      # next hops on access, access, core
    exh_b = int(os.environ.get("C20_EXH_LEN_B", "5" if quick else "5"))    # all three next hops on access
    n_random = int(os.environ.get("C20_RANDOM", "600" if quick else "60000"))
    max_len = 40
    jobs = int(os.environ.get("C20_JOBS", str(max(1, min(12, (os.cpu_count() or 2) - 1)))))

    # 0. one short sequence per handler path (they come first in the trace, so a failing path is reported
    #    by its shortest sequence); next hops 0,1 on access, 2 on core
    N, D, G = "N", "D", "G"
    m, none, std = (0, 0, 1), (False, False, False), (0, 1, 2)
    paths = [
        [(N, 1, 0, 0), (N, 2, 0, 0), (G, 0)],                               # two routes wait for one next hop
        [(N, 1, 0, 0), (D, 1, 0, 0), (G, 0)],                               # deleted while waiting
        [(N, 1, 0, 0), (G, 0), (D, 1, 0, 0)],                               # last route of a next hop deleted
        [(N, 1, 0, 0), (N, 2, 0, 0), (D, 1, 0, 0), (G, 0)],                 # one of two waiting routes deleted
        [(G, 0), (N, 1, 0, 0), (N, 2, 0, 0), (D, 1, 0, 0), (D, 2, 0, 0)],   # resolved adds share a gate; count down to 0
        [(N, 0, 2, 1), (G, 2), (N, 1, 0, 0), (G, 0), (N, 2, 1, 0), (G, 1),  # both interfaces, default route,
         (D, 1, 0, 0), (N, 1, 0, 0), (G, 0), (D, 0, 2, 1)],                 # a gate is not reused
    ]
    F = "F"
    aging = [
        # the neighbour entry ages out of the kernel's table (the controller ignores RTM_DELNEIGH); a route added then waits,
        # and is installed when the next hop is resolved again - with the same MAC
        [(N, 1, 0, 0), (G, 0), (F, 0), (N, 2, 0, 0), (G, 0)],
        [(G, 0), (N, 1, 0, 0), (F, 0), (N, 2, 0, 0), (N, 0, 0, 0), (G, 0), (D, 1, 0, 0), (D, 2, 0, 0), (D, 0, 0, 0)],
        [(N, 1, 0, 0), (G, 0), (F, 0), (N, 2, 0, 0), (D, 1, 0, 0), (G, 0), (D, 2, 0, 0)],
        [(N, 0, 2, 1), (G, 2), (F, 2), (G, 2), (N, 1, 2, 1), (F, 2), (N, 2, 2, 1), (G, 2)],
    ]
    tasks = [("aging", [(m, none, std, p) for p in aging])]
    tasks += [("paths", [(m, none, std, p) for p in paths] +
              [(m, (True, False, False), std, [(N, 1, 0, 0), (D, 1, 0, 0)])])]   # MAC in the neighbour table at start
    for family, ifmap, length in (("exhaustive-2+1", (0, 0, 1), exh_a), ("exhaustive-3+0", (0, 0, 0), exh_b)):
        split = min(2, length)
        for prefix in all_sequences(ifmap, split):
            tasks.append((family, (ifmap, tuple(prefix), length)))
    chunk = []
    for _ in range(n_random):                   # interface map and initially resolved next hops are random too
        ifmap = tuple(rng.randint(0, 1) for _ in NEXTHOPS)
        known0 = tuple(rng.random() < 0.25 for _ in NEXTHOPS)
        macs = [0, 1, 2]
        pairs = [(a, b) for a in range(3) for b in range(a + 1, 3) if ifmap[a] != ifmap[b]]
        if pairs and rng.random() < 0.4:        # one router seen from both interfaces
            a, b = rng.choice(pairs)
            macs[b] = macs[a]
        evs = random_sequence(rng, ifmap, max_len)
        if rng.random() < 0.3:                  # some sequences with neighbour aging: a resolved next hop leaves the kernel's table
            known = set(h for h in range(len(NEXTHOPS)) if known0[h])
            out = []
            for ev in evs:
                out.append(ev)
                if ev[0] == "G":
                    known.add(ev[1])
                if known and rng.random() < 0.15:
                    h = rng.choice(sorted(known))
                    known.discard(h)
                    out.append(("F", h))
            # a route added while its next hop had aged out waits again; deleting it before the next hop is resolved again makes
            # the controller delete an entry it never installed (outside the property, which quantifies over additions, deletions
            # and resolutions): the next hop is resolved again before such a deletion
            ndb = set(h for h in range(len(NEXTHOPS)) if known0[h])
            ever = set(ndb)
            again, fixed = {}, []
            for ev in out:
                if ev[0] == "D" and (ev[3], ev[1]) in again:
                    h = again[(ev[3], ev[1])]
                    fixed.append(("G", h))
                    ndb.add(h)
                    again = {k: v for k, v in again.items() if v != h}
                fixed.append(ev)
                if ev[0] == "G":
                    ndb.add(ev[1]); ever.add(ev[1])
                    again = {k: v for k, v in again.items() if v != ev[1]}
                elif ev[0] == "F":
                    ndb.discard(ev[1])
                elif ev[0] == "N" and ev[2] in ever and ev[2] not in ndb:
                    again[(ev[3], ev[1])] = ev[2]
            evs = fixed
        chunk.append((ifmap, known0, tuple(macs), evs))
        if len(chunk) == 200:
            tasks.append(("random", chunk))
            chunk = []
    if chunk:
        tasks.append(("random", chunk))

    hist, families, samples = {}, {}, {}
    seen, nontrivial = set(), set()
    n = steps = 0
    with open(trace, "w") as f:
        if jobs > 1:
            pool = multiprocessing.get_context("fork").Pool(jobs)
            results = pool.imap(do_chunk, tasks)          # ordered: the trace does not depend on scheduling
        else:
            pool, results = None, map(do_chunk, tasks)
        for family, text, cnt, st, h, hashes, nontriv, smp in results:
            f.write(text)
            n += cnt
            steps += st
            families[family] = families.get(family, 0) + cnt
            for k, v in h.items():
                hist[k] = hist.get(k, 0) + v
            for hh, nt in zip(hashes, nontriv):
                seen.add(hh)
                if nt:
                    nontrivial.add(hh)
            if len(samples.setdefault(family, [])) < 3:
                samples[family] += smp[:1]
        if pool is not None:
            pool.close()
            pool.join()

    meta = {
        "evaluations": n,
        "distinct_nontrivial": len(nontrivial),
        "histogram": dict(sorted(hist.items())),
        "samples": [l for fam in sorted(samples) for l in samples[fam]][:9],
        "exhaustive": True,
        "exhaustive_scope": "every event sequence of length <= %d with next hops on (access, access, core) and of length "
                            "<= %d with all three on access, over 3 prefixes x 3 next hops, no MAC known at start, respecting "
                            "the kernel's discipline; plus %d random sequences of length <= %d with random interface map "
                            "and random initially known MACs (40%% of those with two interfaces in use: one MAC shared by two next hops "
                            "on different interfaces)" % (exh_a, exh_b, n_random, max_len),
        "families": families,
        "events_executed": steps,
        "distinct": len(seen),
        "file_under_test": path,
        "file_sha1": hashlib.sha1(open(path, "rb").read()).hexdigest(),
        "jobs": jobs,
        "driver_wall_s": round(time.time() - t0, 2),
    }
    with open(trace + ".meta.json", "w") as f:
        json.dump(meta, f, indent=1)
    return 0


if __name__ == "__main__":
    sys.exit(main())
