"""Per-property configuration for bin/check."""

GO_LIBS = "Go runtime, standard library and third-party modules as pinned in /repo/go.sum"

PROPS = {
    "C17": dict(
        lean=["Upf.Props.C17", "Upf.Proofs.GenEqPort"],
        claim="Theorems for all 2^32 (low, high) pairs and both strategies: accepted expansions match exactly the denoted ports "
              "(trivial/exact/ternary/product cover), wildcard only for 0-65535 or 0-0, refused iff not representable. "
              "The model is tied to parse_pdr.go by trace acceptance on denoted port sets and by regenerated leaf predicates.",
        note="Trusted: Lean kernel + 3 standard axioms; the hand transcription of the Go loops into BitVec 16 (validated by the correspondence run, "
             "176k cases quick); strconv.ParseUint/strings.Split hand models; the Go compiler.",
        rule="boundary grid B x B of (low, high) incl. inverted pairs, random ranges of four shapes, both strategies, "
             "class pairs + random pairs through CreatePortRangeCartesianProduct, port tokens through parsePort; "
             "a case is one call with its observed result; distinct = distinct trace lines (every call here reaches either "
             "an expansion or a distinct refusal class, so all distinct cases count as non-trivial)",
        trusted_base=["hook wrappers in pfcpiface/verif_hooks.go (field-for-field copies)", GO_LIBS,
                      "strconv.ParseUint / strings.Split modelled by hand (parseU16, splitOn), validated by the run"],
        assumptions=["the denoted-port-set oracle (interval arithmetic in lean/Check/C17.lean) is cross-checked by brute force on every 257th case"],
    ),
    "C06": dict(
        lean=["Upf.Props.C06"],
        claim="At the level of the agent (BESS agent model, any number of associations): along every history of association setups, PFD updates, establishments accepted or refused at any point, deletions, reports, association endings and FAR-updating modifications, starting from the freshly built pool, the pool invariant holds and every held address is held under the SEID of a stored session (pool_invariant_along_every_history). Theorems for every pool, session id and operation sequence (no bound): construction yields exactly the addresses strictly "
              "between network and broadcast; the invariant (free ++ held is a permutation of the pool, no session twice) holds in every "
              "reachable state, hence in-range, exclusive, conserved; sticky; released exactly; refused iff nothing free. Concurrency: the "
              "regenerated lock facts (every method touching the state holds the mutex) instantiate the lockset theorem.",
        note="Trusted: Lean kernel + standard axioms; sync.Mutex and the Go memory model; net.ParseCIDR (modelled as mask arithmetic on BitVec 32, "
             "validated by the run); the syntactic lock-fact extractor. IPv6 pools are outside the model.",
        rule="pool construction for /16../32 on 7 base addresses (aligned, unaligned, top of address space), malformed subnets; "
             "bounded-exhaustive alloc/release sequences on /30 (3 sessions) and /29 (7 sessions); random sequences with more sessions than addresses; "
             "32-goroutine allocate/release/re-allocate runs and 16-goroutine contention on one session id; non-trivial = at least one successful allocation Also (system level): sessions on a /29 come and go on a running agent (deletion, 'context not found'), the allocating rule removed / updated without UE IP, establishments refused after the allocation; after every step the pool holds exactly one address per live session that was given one.",
        trusted_base=[GO_LIBS, "sync.Mutex / Go memory model", "net.ParseCIDR"],
        assumptions=["IPv4 pools only"],
    ),
    "C07": dict(
        lean=["Upf.Props.C07"],
        claim="Theorems for every modulus M > 0, cursor, used-set and operation sequence: a granted TEID is non-zero, <= M, was free; "
              "refused only when all M are used; live TEIDs pairwise distinct over any alloc/free history (incl. wrap-around); a granted SEID is "
              "non-zero and not live for every random source, refused iff all maxRetries draws collide. At the level of the agent (establishment / deletion / report / association-end "
              "handlers of the BESS agent model, any number of associations): along every history the TEIDs chosen for the stored sessions are non-zero, pairwise different across all "
              "associations and in use in the allocator, an establishment refused at any point gives back exactly what it had chosen, an ending exactly its own "
              "(chosen_teids_distinct_along_every_history). Tied by the regenerated updateOffset, "
              "constants and lock facts (T1) and by op-sequence traces with injected cursor/random source (T2). The 'reported = programmed' clause "
              "is checked by the system-level harness under C02/C03.",
        note="Trusted: Lean kernel + standard axioms; sync.Mutex; math/rand only through the injected source; hook wrappers. "
             "alloc_full cannot be exercised on the real 2^32-1 modulus (T2 never sees a refusal); it rests on the theorem and the T1 tie.",
        rule="cursor at {0,1,2,M-3,M-2,M-1} x 5 used-set shapes; random alloc/free/query sequences near and across the wrap; 32-goroutine concurrent "
             "allocation with release; SEID selection with constant, cyclic, zero, colliding (98..101 collisions) and random small sources; "
             "non-trivial = at least one identifier granted Also (system level): a session with a UP-chosen TEID next to sessions whose control plane chose the same number under another N3 address, on the same or another association; after every step the generator's in-use count equals the UP-chosen TEIDs of live sessions.",
        trusted_base=[GO_LIBS, "sync.Mutex / Go memory model"],
        assumptions=["distinct associations draw independent SEIDs (uniqueness is per association, as the property states)"],
    ),
    "C08": dict(
        lean=["Upf.Props.C08"],
        claim="Theorems over ALL token lists, UE address strings and lexers: rendered grammar rules parse to exactly what was written (roundtrip); "
              "fewer than 3 tokens / unknown action / unknown direction / a keyword without address are refused in every context; an accepted "
              "description has both clauses; a malformed description leaves exactly the UE-address pre-fill; SDF orientation by direction, "
              "protocol exactness, PFD descriptions taken verbatim from the first matching direction, unknown application refused. "
              "PFD Management replace/rollback is checked by the system-level harness (C01/C02 family).",
        note="Trusted: Lean kernel + standard axioms; hand models of strings.Fields, strconv.ParseUint and net.ParseCIDR (IPv4) validated by the "
             "correspondence run; IPv6 tokens are outside the model (crash-freedom only); go-pfcp's IE codecs.",
        rule="grammar strings (10 protocol forms x 18 address forms x 11 port forms, covering sample in quick / product in thorough, both clause orders) "
             "x UE strings; every single-token corruption (truncate/drop/duplicate/swap/replace) of a spread of them; token soup with odd white space; "
             "edge strings; PDR-level SDF on uplink and downlink PDRs; random PFD tables with 1-3 applications, 0-3 descriptions each, malformed entries "
             "and unknown IDs; every case here reaches a distinct parse outcome, so distinct cases count as non-trivial Also (system level): PFD Management Requests (accepted and refused) interleaved with establishments naming provisioned / replaced / unknown application IDs on two associations.",
        trusted_base=[GO_LIBS, "go-pfcp IE constructors/accessors", "net.ParseCIDR, strconv.ParseUint, strings.Fields (hand models)"],
        assumptions=["IPv4 only", "PFD Management message handling is exercised at system level, not here"],
    ),
    "C19": dict(
        lean=["Upf.Props.C19"],
        claim="calc_exact is proved about the definition REGENERATED from web_service.go, for all 2^64 rates and every unit string: a non-zero rate whose "
              "converted value fits 63 bits is converted exactly; the handler model answers [201]+programs / [400]+nothing / [405]+nothing. "
              "Tied by T1 (function body, unit constants) and by black-box HTTP requests against the real agent with the slice-meter commands observed "
              "at the harness BESS server (T2).",
        note="Trusted: Lean kernel + standard axioms; net/http and encoding/json (a body counts as malformed iff Go's decoder says so); the extractor's "
             "expression translator; the fake BESS server. The UP4 side (AddSliceInfo on P4) is covered with C04/C16.",
        rule="conversion grid: 9 unit strings x (boundaries floor((2^63-1)/unit)+-2, powers of two, 2^63, 2^64-1, random of three shapes); REST: 60+ documents "
             "(6 unit forms x 10 rate boundaries x burst classes, random), 16 malformed bodies x PUT/POST, bodies shorter than Content-Length, 7 other methods; "
             "non-trivial = a request answered 201, or a distinct conversion case",
        trusted_base=[GO_LIBS, "net/http, encoding/json", "fake BESS server (harness/internal/sysh/bess.go)"],
        assumptions=["BESS datapath for the black-box part"],
    ),
    "C09": dict(
        lean=["Upf.Props.C09"],
        level="proof",
        claim="Along every history in the envelope of the BESS agent model, the two entries bess.addQER builds for each stored QER lie in the lookup table its level selects, under the QER's key (stored_qer_is_programmed, from the image invariant of C03). BESS part proved for all rates / burst configurations / rule sets: closed gate drops; open gate with GBR <= MBR < 2^40 is metered with "
              "peak = MBR x 125 and committed = max(GBR x 125, 1) whatever the other direction left behind; both zero unmetered; burst = exactly "
              "floor(rate x duration / 8) and >= the configured minimum; a QER labelled session-wide by a marking call is referenced by every PDR, at most "
              "one per call. T1: calcBurstSizeFromRate as regenerated from utils.go is proved equal to the model's calcBurst on every pair of 64-bit inputs (burst_is_the_code). "
              "The history clause (never re-labelled) is FALSE for the code: theorem mark_stable_fails + open known finding. "
              "UP4 clauses (gate -> drop action, QFI -> TC) are checked with C04.",
        note="partial: the re-labelling clause is a recorded finding, not a theorem; the UP4 side is with C04. Trusted: Lean kernel + standard axioms, "
             "go-pfcp codecs, fake BESS server, the hand transcription of addQER (validated by every QoS entry of the run).",
        rule="burst grid (15+ boundary rates + random of three shapes x 16 durations); MarkSessionQer on ALL assignments of 13 QER-list shapes to 0..3 PDRs x 10 QER sets "
             "(exhaustive over that shape space); system level: sessions with 1-3 QERs from 11 boundary rates, both gates, 4 QFIs, GBR classes, under two burst "
             "configurations, with QER updates; non-trivial = a QER marked / an accepted request / a distinct burst case",
        trusted_base=[GO_LIBS, "go-pfcp IE codecs", "fake BESS server"],
        assumptions=["rates within PFCP's 40-bit fields", "GBR <= MBR for the exact-rate clauses (as the property states)"],
    ),
    "C03": dict(
        lean=["Upf.Props.C03"],
        level="proof",
        claim="Packet level: for ALL packets, some written pdrLookup entry matches iff the PDR denotes the packet (on top of C17); priorities ordered as precedence. "
              "Table level: establishment/deletion commands turn image(store) into image(store') on keyed tables; disjoint-key commands commute. "
              "Agent level, every history: on the full agent model with the real key strings of the four lookup tables, from start-up on and after every association setup, PFD update, "
              "establishment (accepted or refused), deletion, report 'context not found', association ending, and Session Modification that only updates FARs, only removes rules or only creates rules (stable session-QER marking; for removals pairwise different keys within the session; for creations new rule IDs, no CHOOSE F-TEID, keys no other session has) - and any accepted modification that mixes these three kinds, which is proved equal to its three parts sent one after the other (mixed_modification_is_three_messages), over any number of associations and sessions, each table read as a map "
              "equals Agent.image of the stored sessions and nothing lies under a key no stored session has (tables_are_the_image_along_every_history, invariant Agent.Inv, by induction over the history). "
              "T1: the model's action encoding / allocation test are proved equal to the regenerated bess.setActionValue / needAllocIP on all inputs. "
              "Agent level: executable model of establish/modify/delete + MarkSessionQer + bess.go command stream, tied to the REAL agent (child process, public API) "
              "by trace acceptance: after every response the harness BESS server's tables must equal the model's and the image of the live sessions; "
              "restart after SIGKILL must leave the four lookup modules empty.",
        note="partial: the history theorem covers every request kind except Session Modifications that carry Update PDR / Update QER (for which the statement is false of the code: key-changing Update PDR, "
             "QER relabelling - open findings); those are tied by T2 only; BESS itself is a table model "
             "(semantics of pkg/fake_bess). Envelope of the theorems: IPv4, distinct rule IDs per session, distinct match keys of live PDRs, key-preserving updates; "
             "key-changing Update PDRs are generated too and judged by the oracle (open finding C03-update-pdr-changes-key).",
        rule="rounds of: seeded leftovers, start, two associations, a random history of 4-13 requests (establish 8 session shapes incl. SDF/app filters, CHOOSE F-TEID, UE-IP "
             "allocation, buffering FARs; handover with/without end marker; create/update/remove rules; unknown session; wrong node ID; CP F-SEID change), then SIGKILL; "
             "non-trivial = an accepted request. Also: updates naming FAR / QER / PDR IDs the session does not have (skipped, nothing written); "
             "modifications refused after they removed a non-last rule; every fourth incarnation: Update PDRs that move a rule to another F-TEID (another table key)",
        trusted_base=[GO_LIBS, "go-pfcp IE codecs", "fake BESS server (harness/internal/sysh/bess.go)", "loopback UDP/gRPC"],
        assumptions=["IPv4 only", "distinct live PDRs have distinct match keys (two rules with one key are an ambiguous rule set)",
                     "theorems: an Update PDR/QER does not change the rule's table key (the T2 oracle does not assume it)"],
    ),
    "C20": dict(
        lean=["Upf.Props.C20"],
        runner="py/c20_driver.py",
        claim="Theorems for every event sequence (any length, any number of prefixes, next hops and interfaces, any initial neighbour "
              "table) inside the envelope: the eleven-clause invariant Route.Inv holds after every RTM_NEWROUTE / RTM_DELROUTE / "
              "RTM_NEWNEIGH (route_refines), hence: a route is in its interface's lookup table iff the kernel has it and its next hop's "
              "MAC is known (installed_iff); RTM_NEWNEIGH installs every waiting route of that next hop and nothing the kernel dropped "
              "(newneigh_installs_all, waiting_iff); routes through one next hop share one gate and one Update module (shared_gate, "
              "same_nexthop_same_gate); the module exists iff an installed route uses it and the reference count is exact "
              "(module_iff_used, refcount_exact); live next hops of one lookup module have distinct gates (gates_distinct); one table "
              "entry per prefix (table_keys_unique). The model is the three handlers of conf/route_control.py with fix-C20.diff applied; "
              "it is tied to the real file by replaying every recorded sequence: Route.step reproduces the module graph bessd holds "
              "after every event exactly (gate numbers included), and the property itself is evaluated on that observed graph.",
        note="Trusted: Lean kernel + standard axioms; the hand transcription of the three Python handlers (validated by the "
             "correspondence run: every sequence of <= 5 events over the 3x3x2 universe plus long random ones); the fake bessd client "
             "in py/c20_driver.py (module table, IPLookup tables keyed by prefix, one link per output gate, EEXIST/ENOENT/EBUSY as "
             "bessd answers) standing in for pybess/bessd, and the scripted NDB standing in for pyroute2 (the NDB neighbour table "
             "and the RTM_NEWNEIGH handler call are one atomic step). The real BessController retry wrappers run (SLEEP_S = 0), "
             "but bessd never fails transiently here; the ping thread and SIGHUP reconfigure are outside the model.",
        rule="real RouteController + real BessController driven with netlink-shaped messages through _netlink_route_handler / "
             "_netlink_neighbor_handler; universe 3 prefixes (default route, /16, /24) x 3 next hops x 2 interfaces; one short sequence per handler path, then ALL event "
             "sequences up to length 5 (thorough: 6) for the two interface maps that are distinct up to renaming (next hops on "
             "access,access,core and all on access), no MAC known at start, respecting the kernel's discipline; plus random sequences "
             "of length <= 40 (quick 600, thorough 60000) with random interface map, random initially known MACs and, in 40% of the "
             "two-interface runs, one MAC shared by next hops on different interfaces; the module graph is recorded after EVERY "
             "event; non-trivial = at some point a route is in a lookup table; distinct = distinct trace lines (hashed)",
        trusted_base=["py/c20_driver.py: stub modules for pyroute2 / pybess / scapy, fake bessd client, scripted NDB",
                      "CPython 3 standard library (ipaddress, dataclasses, logging)"],
        assumptions=["each next hop address is on-link on exactly one managed interface (the neighbour cache is keyed by the next "
                     "hop address alone; the authors' own test shares one entry across two interfaces)",
                     "the kernel holds at most one route per (interface, prefix): the controller ignores RTA_PRIORITY / RTA_TABLE, "
                     "and a lookup module can hold one entry per prefix",
                     "next hops on one interface have distinct MACs (the Update module is named after interface and MAC)",
                     "a MAC, once known, stays known and does not change (no RTM_DELNEIGH handling in the controller)",
                     "fewer than MAX_GATES - 1 = 8191 next-hop activations per interface over the controller's lifetime "
                     "(the gate counter is never decremented; the model's counter is unbounded)",
                     "bessd accepts every well-formed command (no transient RPC failures)"],
        technique="Lean 4 theorems over an executable model of the Python handlers; model tied to conf/route_control.py by trace "
                  "acceptance (T2): the unmodified file is loaded with stub modules and driven against a fake bessd client",
        timeout=dict(quick=600, thorough=7200),
    ),
    "C18": dict(
        lean=["Upf.Props.C18"],
        level="proof",
        claim="Theorems for every document shape, every decoded configuration and every behaviour of the four library predicates: "
              "a returned configuration has the documented defaults (2s / 5 / 15 / 5s; info and traffic class 3 when the document is silent), "
              "every duration it uses parses, mode is one of the five BESS modes or empty with UP4 (access IP and UE pool parse), pool parses when "
              "UE IP allocation is on, every peer parses; nothing valid is refused and a refusal names a failing check; the comment scanner "
              "(equivalent to the regexp) returns exactly the text of every well-formed commented document, leaves comment-free text unchanged, "
              "never lengthens its input. Tied by regenerated constants / regexp literal / valid modes / pre-decode defaults (T1) and by loading "
              "generated documents with the real LoadConfigFile and removeComments (T2).",
        note="Partial: JSON tokenising, the regexp engine and time.ParseDuration / net.ParseCIDR / net.ParseIP / zapcore.Level.UnmarshalText are "
             "not modelled; the predicates are parameters of the theorems and Go's recorded verdicts instantiate them in the run. Documents with "
             "comment markers inside strings and multi-line block comments are generated but only crash-freedom and validity of a returned "
             "configuration are asserted, as the property says. The cndp_*.jsonc files under conf/ are CNDP library configurations, not inputs "
             "of this loader (they are loaded, recorded, and must only not crash).",
        rule="(a) documents generated from the Conf schema: every member of every field's value class (valid, boundary, invalid, null, wrong "
             "JSON kind) on a valid BESS and a valid UP4 base, plus random combinations, in four layouts with schema noise and key-case variants; "
             "(b) // and /* */ comments at every inter-token position of ~50 base documents (one at a time, two blocks on one line, block then "
             "line, adjacent, several, every gap, bare at EOF); (c) removeComments vs the scanner on generated piece lists, marker soup, raw "
             "bytes and the sample files; (d) random bytes, JSON soup, mutated documents, markers inside strings, multi-line block comments; "
             "(e) the shipped *.jsonc files; Duration.String of the model against Go's. Non-trivial = got past JSON syntax (load/ins/fuzz), "
             "contains a '/' (scanner).",
        trusted_base=[GO_LIBS, "encoding/json, regexp, time.ParseDuration, net.ParseCIDR, net.ParseIP, zapcore.Level.UnmarshalText (exercised, not modelled)",
                      "hook wrapper VerifRemoveComments in pfcpiface/verif_hooks.go"],
        assumptions=["documents with comment markers inside string values or multi-line block comments are outside the 'comments are ignored' claim "
                     "(the property text excludes them)"],
        timeout=dict(quick=600, thorough=7200),
    ),
    "C14": dict(
        lean=["Upf.Props.C14"],
        level="proof",
        claim="Handler level (Agent.modify = handleSessionModificationRequest): with the feature enabled a modification emits exactly the markers its Update FAR loop collected over the session's FARs, once the create/update part is programmed; with the feature disabled, for an unknown session, or when a Create PDR / Update FAR does not parse, none (modification_emits_exactly, failed_modification_emits_none). markers_exact for every stored FAR list and every list of updates with distinct IDs: the emitted markers are exactly one per flagged update "
              "of a known FAR, built from the FAR stored before the message (old peer, old TEID, UPF address of that interface), in order; none without the "
              "flag, for unknown IDs, for creations; GTP-U port constant 2152 regenerated. Tied by T2: the packets the REAL agent writes to the "
              "end-marker unixpacket socket, decoded with gopacket, after the datapath update was observed.",
        note="Trusted: Lean kernel + standard axioms; gopacket (serialisation in the agent, parsing in the harness); go-pfcp codecs; BESS datapath only "
             "(the UP4 PacketOut path shares UpdateFAR/addEndMarker and differs in the transport). Envelope: FAR IDs distinct within one message.",
        rule="sessions with 1-3 downlink FARs (forwarding, buffering, flag on creation), 1-4 modifications each with 1-3 FAR updates: SNDEM / other flag / both / "
             "flag without tunnel change / unknown FAR ID / invalid action (rejected) / flagged creation; with the feature on and off; non-trivial = an accepted request",
        trusted_base=[GO_LIBS, "gopacket", "go-pfcp IE codecs", "fake BESS server, unixpacket socket"],
        assumptions=["FAR IDs distinct within one message", "BESS datapath"],
    ),
    "C02": dict(
        lean=["Upf.Props.C02"],
        level="proof",
        claim="Handler model: every modification reply (accepted or rejected at any point) is addressed to the control plane's SEID for the session - the one a CP F-SEID of this request brings, else the stored one; an accepted modification stores it, and the following deletion response carries it (mod_reply_seid, mod_accepted_stores_cp_seid, cp_seid_change_is_remembered). For every world, association and request of the agent model: every establishment reply is addressed to the request's CP SEID; a reply carrying "
              "a UP F-SEID is accepted, carries exactly the SEID the session is stored under; deletion/modification of an unknown session is rejected with "
              "SEID 0 and changes nothing; accepted deletion is addressed to the stored CP SEID. 'Exactly one response of the matching type with the request's "
              "sequence number, responses never answered': T1 facts regenerated from PFCPConn.HandlePFCPMsg and the handlers (Gen.Dispatch) and evaluated in Lean - "
              "each served request type has exactly one clause, which calls its own handler and takes its reply; every handler builds only the matching "
              "response constructor and sends nothing itself; the dispatcher's only send is the top-level `if reply != nil { SendPFCPMsg(reply) }` after the "
              "switch, no loop; clauses serving response types take no reply, their handlers build and send nothing, other types return - and COUNTED on the "
              "peer socket of the real agent for every request type (heartbeat, association setup/release, PFD management, session "
              "establishment/modification/deletion) and 7 response types.",
        note="partial: byte-level header encoding and message typing are go-pfcp's; the association-level handlers (heartbeat, setup, release, PFD) are "
             "modelled only as far as the store and application table go; the dispatch facts are syntactic (sends inside callees of a handler are seen by the "
             "datagram count of T2 only). Trusted: Lean kernel + standard axioms, the extractor, go-pfcp, loopback UDP.",
        rule="300+ requests over 3 associations with interleaved sessions: all request types, sequence numbers from {1,2,2^23,2^24-1,...,random 24-bit}, accepted and "
             "rejected mixes (wrong node ID, unknown / foreign session, unknown Remove ID, malformed PFD), CP F-SEID changes, releases and re-associations, "
             "response-type messages; non-trivial = an accepted request or an answered heartbeat Also: flow descriptions naming IPv6 networks; a third world with the heartbeat timer on in which the peer answers every heartbeat of the agent twice, followed by heartbeat / establishment / deletion requests.",
        trusted_base=[GO_LIBS, "go-pfcp codecs", "loopback UDP sockets", "fake BESS server"],
        assumptions=["mandatory IEs well-formed (malformed ones are C01's)"],
    ),
    "C05": dict(
        lean=["Upf.Props.C05"],
        level="proof",
        claim="No UE address is leaked: once no session is left, every configured address is free again (addresses_all_returned). Along every history of the BESS agent model (establishments accepted or refused at any point, deletions, reports 'context not found', association endings; any number of associations and sessions): a TEID is in use in the allocator only if a stored session's PDR holds it and a key is present in a lookup table only if a stored session has it; once no session is left no TEID is in use and the four tables are empty (nothing_leaks_along_every_history, all_ended_all_returned). For every world and request of the agent model: the pool invariant (C06) is preserved by every establishment (accepted or refused at any point) and "
              "every deletion; the release gives back the session's address and TEIDs; an accepted deletion drops exactly the session's record; an ended "
              "association is forgotten. Tied by T2 to the REAL agent for all five ways a session ends (deletion, association release, read timeout, heartbeat "
              "failure, report 'context not found') after accepted and rejected requests: fake-BESS tables, pool/TEID/store occupancy through hooks, the "
              "pfcp_sessions gauge scraped from /metrics, and more attach/detach cycles than a /29 pool has addresses.",
        note="partial: BESS datapath (the P4 pools are C15/C04); the image refinement behind 'every entry removed' is tied by T2 (see C03). "
             "Trusted: Lean kernel + standard axioms, hooks VerifStats, prometheus text format, timers for the timeout/heartbeat cases.",
        rule="three configurations (plain / read timeout 1 s / heartbeat 250 ms) x rounds of: associate, 1-3 sessions (CHOOSE F-TEID + UE-IP allocation, QER shapes), "
             "establishments refused half-way (after address/TEID acquisition), modifications rejected after their create/update step, then one way to end, "
             "then stats; plus 20+ attach/detach cycles on a /29 pool with refused attaches; non-trivial = an accepted request or an observation Also: the rule that made the UP allocate the UE address is removed or updated without the UE IP Address IE before the session ends; modifications refused after removing non-last rules; and UP4 rounds (attach / idle with forwarding parameters kept / resume / detach by deletion, 'context not found' or association release) where, whenever no session is live, the plug-in's pools must be full, its maps empty and the switch hold only the interfaces entries.",
        trusted_base=[GO_LIBS, "go-pfcp codecs", "fake BESS server", "hook accessors (verif_hooks.go)", "OS timers"],
        assumptions=["one address per session (the pool is keyed by SEID)"],
        timeout={"quick": 900, "thorough": 7200},
    ),
    "C01": dict(
        lean=["Upf.Props.C01"],
        level="proof",
        claim="Crash: regenerated structural facts (the dispatcher starts with a recover that neither re-panics nor exits; every message-level IE field is nil-tested "
              "before use) + totality of the parser models. Wedge: never_blocks - with the two regenerated pending-request facts no response (late, duplicated, any "
              "sequence number) blocks the reader in any reachable state; the negative witness without the delete is proved too. Tie: against the REAL agent "
              "(child process), every single IE mutation (drop / duplicate / empty / 4 retypes / truncate / one byte / all ones / IPv6-only / every token-prefix of a flow "
              "description) of every IE position, recursively, of 16 message templates, in six states, each followed by a valid Heartbeat Request; a raw stream of random / "
              "bit-flipped / truncated datagrams; a valid request on another association every 200 cases.",
        note="partial: Go runtime failures outside the model (stack/heap exhaustion, data races - C11) and what recover cannot undo (a handler interrupted half-way) are not "
             "proved; message.Parse of go-pfcp is trusted to return or fail (exercised by the raw stream). Quick tier samples 1/6 of the mutations outside the state "
             "'session'; thorough runs all of them in all states.",
        rule="16 templates x every IE position x 10-12 mutations (+ flow-description prefixes) x 6 states (full in state 'session', sampled elsewhere in quick); 3000 raw datagrams "
             "with a liveness barrier every 50; non-trivial = a case that was answered Also: (bounce) with the agent's heartbeats on, the peer's socket is closed for 180 ms so that a Heartbeat Request of the agent bounces (ICMP port unreachable), then the peer is back on the same address and port and must be answered; (choosemod) establishment, a modification creating / updating a PDR with a CHOOSE F-TEID, deletion, then a CHOOSE establishment on another association must be answered.",
        trusted_base=[GO_LIBS, "go-pfcp message.Parse", "loopback UDP", "fake BESS server"],
        assumptions=[],
        timeout={"quick": 1500, "thorough": 20000},
    ),
    "C13": dict(
        confirm_timing=True,
        lean=["Upf.Props.C13"],
        level="proof",
        claim="For every monotone time-stamped report sequence over any number of sessions and every interval: a first report passes; after a forwarded notification "
              "every later forwarded one for the same F-SEID is >= interval later; inside the interval a report is suppressed and changes nothing. For every stored "
              "session: the report carries the CP's SEID and the FIRST downlink PDR, and none is sent when that PDR's FAR lacks the notify bit or there is no "
              "downlink PDR. T1: the 20 s interval constant. T2: the notifier with 30-80 ms intervals under recorded call windows (decisions must be consistent "
              "with SOME instant in each window), and the full path BESS notify socket -> agent -> Session Report Request at the peer.",
        note="Trusted: Lean kernel + standard axioms, a monotone clock (time.Now / time.Since), sync.Map; one association (multi-association routing is documented as "
             "unimplemented); the real 20 s interval is only exercised as 'repeats inside it are suppressed' in quick. The UP4 digest path shares notifier and "
             "handleDigestReport; its transport is covered with C04.",
        rule="4 notifier runs x 500 calls over 6 F-SEIDs with sleeps around the interval boundary; 20 sessions (6 FAR action classes incl. notify / buffer-only / "
             "forward / drop, no downlink PDR, dangling FAR) x first report, repeats, unknown session, deleted session; non-trivial = a forwarded notification Also: a CP F-SEID change by modification before the first report of a third of the sessions.",
        trusted_base=[GO_LIBS, "OS clock", "unixpacket socket", "go-pfcp codecs"],
        assumptions=["monotone clock", "one association"],
    ),
    "C12": dict(
        confirm_timing=True,
        lean=["Upf.Props.C12"],
        level="proof",
        claim="For every retry count N, sequence number and event sequence of the waiter (timeouts, responses with any sequence number, shutdown): at most 1+N "
              "transmissions; declared dead only after all 1+N went unanswered; stops at the first response with the request's sequence number; other sequence "
              "numbers are ignored; late/duplicated responses never block the reader (with the regenerated pending-request facts); defaults 5 / 2 s / 5 s regenerated. "
              "T2 with REAL timers against a scripted lossy peer: answer the k-th transmission (k = 1..N+1) or none for N = 1..3, counts / spacing / sequence numbers, "
              "dead peer's sessions removed, wrong-sequence and triplicated responses, peer heartbeats (constant Recovery Time Stamp, postponement), association "
              "accepted iff the datapath is connected (fake BESS stopped), advertised features for all 4 feature configurations.",
        note="partial: real timers, the Go scheduler and the gRPC connectivity state machine are runtime behaviour the model takes as inputs; spacing is accepted "
             "within [0.7, 1.5] x resp_timeout (measured jitter on this machine < 1 ms). The feature bits are compared, not derived from the setters' source.",
        rule="N in {1,2,3} x answer-at-k / never (12 series in thorough, 10 in quick) with a live session each; 3 duplicate/wrong-sequence scripts; 3 peer-heartbeat scripts; "
             "4 feature configurations x datapath up/down; non-trivial = every observed series",
        trusted_base=[GO_LIBS, "OS timers and scheduler", "gRPC connectivity state", "go-pfcp codecs"],
        assumptions=["timer jitter below 30% of resp_timeout (80 ms)"],
    ),
    "C10": dict(
        lean=["Upf.Props.C10"],
        level="proof",
        claim="On the interleaving model Life (node + any number of associations, Shutdown at channel-operation granularity, Go's two panics as outcomes): with the two "
              "structural facts REGENERATED from conn.go/node.go (Shutdown runs under sync.Once; the node blocks for the associations' reports and does not close the "
              "channel first) no interleaving panics; the deletion ledger (deleted ++ to-delete) of an association is constant at every step; without the guard the "
              "two-trigger schedule panics (proved). T2: scripted and randomly paced runs of the REAL agent for 9 trigger scripts x 0/1/3 associations with sessions: "
              "exit in bounded time, no panic, every installed entry deleted exactly once, fresh association from the same address accepted, others unaffected.",
        note="partial: the Go scheduler, fairness, timers and sockets are not modelled; the tie from the skeleton to the real interleavings is the two syntactic facts "
             "and sampling by repetition. The model deletes sessions from a shared list, so 'exactly once' rests on the once-guard (stated).",
        rule="scripts stop / stop-inflight / release+stop / release / timeout / hbdead / timeout+hbdead / hbdead+stop / release+release x {0,1,3} associations x "
             "0-2 sessions each x repetitions with random microsecond offsets; non-trivial = every run Also: first-datagram-release+stop: 250 (3000) new peers whose first datagram is an Association Release Request, each then setting an association up (retransmitted like a real peer), then Stop.",
        trusted_base=[GO_LIBS, "OS scheduler/timers", "fake BESS command log"],
        assumptions=["fair scheduling (a runnable goroutine eventually runs)"],
        timeout={"quick": 900, "thorough": 7200},
    ),
}

P4_TB = [GO_LIBS, "go-pfcp IE codecs", "harness P4Runtime server (harness/internal/sysh/p4srv.go): Write semantics of the P4Runtime specification "
         "(INSERT of an existing key ALREADY_EXISTS, MODIFY/DELETE of a missing key NOT_FOUND, batch continues on error, one status per update), "
         "meters as arrays of configurations, serves the repository's conf/p4/bin/p4info.txt; the real switch (ONOS UP4 application) is not run",
         "p4runtime / grpc / protobuf Go libraries", "loopback UDP/gRPC", "verif hook VerifUP4Stats (pool occupancy, read-only)"]

PROPS["C04"] = dict(
    lean=["Upf.Props.C04"],
    level="proof",
    claim="Theorems (all inputs): the action of every terminations entry follows FAR and QER exactly as stated (drop iff the FAR drops or the gate of that "
          "direction is closed, else forward with FAR TEID, QFI, traffic class, application-meter cell, counter); sessions entries sit under N3 address+TEID / "
          "UE address, buffering iff the FAR buffers, else pointing to the tunnel peer; the tunnel-peer entry carries access address, outer-header address and "
          "port; reference counting of tunnel peers (last user deletes entry and returns the ID, a remaining user keeps both, a second user re-uses the ID); "
          "whatever a killed incarnation left in the switch, after a start-up whose Writes are served the seven tables the agent owns hold nothing but "
          "the two interfaces entries (restart_clears_tables). "
          "Per history (T2): the model of up4.go + p4rt_translator.go + the session handlers, run with the environment's observed choices, must predict every "
          "Write RPC of the real agent update by update and status by status, the switch content and the plug-in's bookkeeping; the oracle compares the switch "
          "with the image of the live sessions after EVERY response, and after a kill + restart against the same switch.",
    note="partial: `tables = image(live)` for all histories is not a theorem of the model of the current code, because it is false of the code: four classes "
         "of histories (listed as open known findings, each predicted exactly by the model) leave the switch different from the image. The image clause is "
         "decided per observed history. Meter cells of a killed incarnation are not reset at start-up; the crash clause of the statement names table entries "
         "only and is checked as such. Priority of an applications entry is not part of the image (the statement asks for one entry per filter).",
    rule="rounds (6 quick / 400 thorough) with a drawn slice ID, default TC and QFI->TC map: start, 1-2 associations, a random history of 25 (80) requests over "
         "up to 6 live sessions of 8 shapes (per-direction / shared / no QERs, session QER, application filters shared between sessions, buffering FAR, further "
         "PDRs sharing TEID / UE address, closed gates) sharing 3 gNB peers: establish, delete, buffer (with / without forwarding parameters), forward to the "
         "same / another gNB, QER update (rates, gates, QFI), FAR action, remove / create PDR, PDR update (precedence, filter); every second round the agent "
         "is SIGKILLed and restarted against the same switch and the history continues; the first two rounds open with the scripted history 'a buffering FAR is "
         "given gNB X's tunnel, X's last forwarding user leaves, the buffering session is deleted / its association released' (defect 83b28b9); "
         "non-trivial = an accepted request",
    trusted_base=P4_TB,
    assumptions=["IPv4 only", "values inside their field widths", "a refused establishment's SEID is not observable: the model keys its leftovers by a value no real SEID can take"],
    timeout=dict(quick=900, thorough=7200),
)
PROPS["C15"] = dict(
    lean=["Upf.Props.C15"],
    level="proof",
    claim="Theorems, for every request sequence of any length and EVERY environment (every identifier Pop() may hand out, every Write RPC served / failed as a "
          "whole / any update refused with any status): the two meter pools and the meters map stay exclusive (a cell is never free while a recorded meter "
          "holds it, never held by two meters, always inside 1..1023), and so do tunnel-peer IDs and application IDs (a holder's ID is never in the free queue, "
          "two holders never share one, the queue never holds one twice); application-meter operations never touch the session pool nor the reverse, and a failed "
          "meter Write returns exactly the popped cells to the pool they came from; sendCreate / sendUpdate report success only if no Write of the request "
          "failed (ALREADY_EXISTS excepted). Counter cells at the plug-in's interface: the cells an establishment hands out are pairwise distinct, were free and "
          "are no longer free; only sendCreate's counter loop takes cells, only an accepted sendDelete returns cells - exactly those of the deleted PDRs; along "
          "every history the ledger 'free / left the pool and not yet returned' never has a cell on both sides nor twice on one (counters_inv). "
          "T2: the same model must predict the real agent under injected failures: every (request, write position, "
          "failure kind) of three scenario families, plus random multi-fault runs, each followed by further sessions that would receive a wrongly recycled "
          "identifier; oracles on the observation: identifiers in installed entries are exclusive, pool occupancy read through the hook adds up "
          "(free + held = pool size per meter pool; free + held <= size for counters), the PFCP cause after a failed write is not 'accepted'.",
    note="partial: that the counter cells which left the pool are the ctrIDs of the stored sessions' PDRs (the owners live in the handlers' state) is decided "
         "by correspondence + oracles (evaluated on model state and observation after every event), not by a theorem - it is false of the code for a PDR created "
         "by a modification (open finding C15-pdr-created-in-modification-has-no-counter); leaks (identifiers lost after a refused request) are not violations of this property and are not reported here. "
         "The removal part of a modification (Remove PDR/FAR/QER) issues best-effort writes whose failure is swallowed by design (resetMeters, "
         "removeGTPTunnelPeer); the 'failed write => rejected' theorem covers establishment and the create/update part of a modification.",
    rule="three scenario families of 8-11 requests over sessions sharing a gNB and an application filter; one fault-free run counts the Writes of every step; "
         "then one fresh run per (step, k-th Write of the step) with the RPC failed as a whole, and (thorough: all; quick: every second) with the first / second "
         "update refused (INTERNAL / RESOURCE_EXHAUSTED); then random multi-fault runs (6 / 600 per family); every run ends with 3 further sessions; "
         "non-trivial = an accepted request",
    trusted_base=P4_TB,
    assumptions=["a failing Write is either refused as a whole (nothing applied) or answered with per-update statuses (the refused update not applied)"],
    timeout=dict(quick=900, thorough=7200),
)
PROPS["C16"] = dict(
    lean=["Upf.Props.C16"],
    level="proof",
    claim="Theorems: for ALL inputs inside the widths of their Go types and the configuration bounds of the property (slice <= 15, TC <= 3, QFI < 64), every "
          "entry builder of p4rt_translator.go (interfaces, sessions up/down incl. buffering, terminations up/down incl. drop, applications with all 8 "
          "combinations of optional fields, tunnel peers) returns an entry that is valid for the P4Info regenerated from conf/p4/bin/p4info.txt: table exists, "
          "match fields belong to it with declared kind and width, action admitted by the table with exactly its parameters, non-zero priority where the "
          "table has ternary/range fields (applications: for every PDR verifyPDR lets through); meter and counter indices from the pools lie inside the "
          "declared arrays; GetSliceTCMeterIndex (generated from utils.go) stays below the slice meter's size; the compiled constants resolve to the named "
          "pipeline objects. T2: EVERY update of EVERY Write the real agent issues (C16 family and every other UP4 run) is validated by the same predicate; the "
          "repository's generator is built and run 12 (60) times on the shipped P4Info and compared byte for byte (after gofmt) with the committed constants.",
    note="partial: generator determinism is observed over repeated runs, not proved; protobuf encoding is the library's; LPM values are not required to have "
         "zero bits beyond the prefix (the property does not ask for it).",
    rule="generator runs; then 4 (16) configurations (slice 0/15/7/1, default TC 0-3, a QFI->TC map): every precedence in {0,1,255,256,32768,65534,65535} (thorough: plus 48 drawn from 0..65535) x every "
         "SDF filter of the pool (quick: a third), boundary TEIDs / gNB addresses / MBRs (0 .. 2^40-1) / QFIs {0,1,9,32,63} / gates, FAR actions incl. buffer "
         "and drop; establish, update QER / FAR, delete; non-trivial = an accepted request",
    trusted_base=P4_TB + ["gofmt (as the repository's make target formats the generated file)"],
    assumptions=["values arrive inside the widths of their Go types (uint8/uint16/uint32): by typing", "QFI < 64 as go-pfcp decodes it; slice ID <= 15 and TC <= 3 as the property's quantifier states"],
    timeout=dict(quick=900, thorough=7200),
)

PROPS["C11"] = dict(
    lean=["Upf.Props.C11"],
    level="proof",
    race=True,
    claim="T1 facts regenerated from the source and evaluated in Lean: the UP4 bookkeeping every association shares (counters, meters, both meter pools, UE "
          "address maps, tunnel peers, applications and their ID pools) is reached from no entry point of the type without a lock of the object held - "
          "SendMsgToUPF, the entry every association's goroutine uses, takes one mutex for the whole request; nothing outside the type touches its fields; "
          "IPPool and FTEIDGenerator are atomic objects. Theorems: under such a discipline no two threads are ever inside accesses guarded by the same "
          "mutex (every schedule, any length, any number of threads); every interleaving of two command streams on disjoint keys leaves the tables of "
          "the sequential composition (BESS); with the request mutex a concurrent UP4 execution is a request sequence, to which C04/C15/C16 apply. "
          "T2: cross-association histories (2-4 associations sharing gNB peers and application filters) decided by the UP4 model; streams of "
          "establishments, QER updates and deletions from 2..8 associations AT THE SAME TIME against the agent built with the race detector, on both "
          "datapaths: no race report, no crash, every request accepted, and at each quiescent point the datapath holds what the sessions denote "
          "(BESS: tables equal to the model's after replaying the streams association by association and equal to the image; UP4: entry counts per "
          "table, shared peers / applications counted once, references resolvable, cells exclusive, pool occupancy exact, all pools full at the end).",
    note="partial: the Go scheduler and memory model are not modelled; data races are searched by the race detector under randomised pacing (a dynamic "
         "analysis: it reports races on the schedules that occurred). The lock facts do not tell WHICH mutex guards a field: start-up / reconnect "
         "initialisation (tryConnect -> initialize -> clearDatapathState) re-creates the pools under tryConnectMu, not under the request mutex. The UP4 "
         "concurrent phase is checked order-independently (identifiers depend on the order).",
    rule="2 (12) sequential cross-association UP4 histories of 30 (80) requests; then per datapath 3 (20) runs with 2,4,8,(3,5,6,7) associations, each "
         "establishing 10 (100) sessions with keys disjoint between associations and 3 shared gNBs / 3 shared application filters, a QER update on a third "
         "of them, random sub-millisecond pacing, then all associations delete their sessions at the same time; non-trivial = an accepted request",
    trusted_base=P4_TB + ["fake BESS server (harness/internal/sysh/bess.go)", "Go race detector (runtime/race, ThreadSanitizer)"],
    assumptions=["sessions of different associations have disjoint match keys (UE addresses, TEIDs) - the control planes' responsibility",
                 "the plug-in object is handed to other goroutines only after SetUpfInfo returned"],
    timeout=dict(quick=1200, thorough=7200),
)

NOT_APPLICABLE = {}
