"""Per-property configuration for bin/check."""

GO_LIBS = "Go runtime, standard library and third-party modules as pinned in /repo/go.sum"

PROPS = {
    "C17": dict(
        lean=["Upf.Props.C17", "Upf.Proofs.GenEqPort"],
        claim="Theorems for all 2^32 (low, high) pairs and both strategies: accepted expansions match exactly the denoted ports "
              "(trivial/exact/ternary/product cover), wildcard only for 0-65535 or 0-0, refused iff not representable. "
              "The model is tied to parse_pdr.go by trace acceptance on denoted port sets and by regenerated leaf predicates.",
        note="Trusted: Lean kernel + 3 standard axioms; the hand transcription of the Go loops into BitVec 16 (validated by the correspondence run, "
             "176k cases quick); strconv.ParseUint/strings.Split hand models; the Go compiler.",
        rule="boundary grid B x B of (low, high) incl. inverted pairs, random ranges of four shapes, both strategies, "
             "class pairs + random pairs through CreatePortRangeCartesianProduct, port tokens through parsePort; "
             "a case is one call with its observed result; distinct = distinct trace lines (every call here reaches either "
             "an expansion or a distinct refusal class, so all distinct cases count as non-trivial)",
        trusted_base=["hook wrappers in pfcpiface/verif_hooks.go (field-for-field copies)", GO_LIBS,
                      "strconv.ParseUint / strings.Split modelled by hand (parseU16, splitOn), validated by the run"],
        assumptions=["the denoted-port-set oracle (interval arithmetic in lean/Check/C17.lean) is cross-checked by brute force on every 257th case"],
    ),
    "C06": dict(
        lean=["Upf.Props.C06"],
        claim="Theorems for every pool, session id and operation sequence (no bound): construction yields exactly the addresses strictly "
              "between network and broadcast; the invariant (free ++ held is a permutation of the pool, no session twice) holds in every "
              "reachable state, hence in-range, exclusive, conserved; sticky; released exactly; refused iff nothing free. Concurrency: the "
              "regenerated lock facts (every method touching the state holds the mutex) instantiate the lockset theorem.",
        note="Trusted: Lean kernel + standard axioms; sync.Mutex and the Go memory model; net.ParseCIDR (modelled as mask arithmetic on BitVec 32, "
             "validated by the run); the syntactic lock-fact extractor. IPv6 pools are outside the model.",
        rule="pool construction for /16../32 on 7 base addresses (aligned, unaligned, top of address space), malformed subnets; "
             "bounded-exhaustive alloc/release sequences on /30 (3 sessions) and /29 (7 sessions); random sequences with more sessions than addresses; "
             "32-goroutine allocate/release/re-allocate runs and 16-goroutine contention on one session id; non-trivial = at least one successful allocation",
        trusted_base=[GO_LIBS, "sync.Mutex / Go memory model", "net.ParseCIDR"],
        assumptions=["IPv4 pools only"],
    ),
}

NOT_APPLICABLE = {}
