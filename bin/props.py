"""Per-property configuration for bin/check."""

GO_LIBS = "Go runtime, standard library and third-party modules as pinned in /repo/go.sum"

PROPS = {
    "C17": dict(
        lean=["Upf.Props.C17", "Upf.Proofs.GenEqPort"],
        claim="Theorems for all 2^32 (low, high) pairs and both strategies: accepted expansions match exactly the denoted ports "
              "(trivial/exact/ternary/product cover), wildcard only for 0-65535 or 0-0, refused iff not representable. "
              "The model is tied to parse_pdr.go by trace acceptance on denoted port sets and by regenerated leaf predicates.",
        note="Trusted: Lean kernel + 3 standard axioms; the hand transcription of the Go loops into BitVec 16 (validated by the correspondence run, "
             "176k cases quick); strconv.ParseUint/strings.Split hand models; the Go compiler.",
        rule="boundary grid B x B of (low, high) incl. inverted pairs, random ranges of four shapes, both strategies, "
             "class pairs + random pairs through CreatePortRangeCartesianProduct, port tokens through parsePort; "
             "a case is one call with its observed result; distinct = distinct trace lines (every call here reaches either "
             "an expansion or a distinct refusal class, so all distinct cases count as non-trivial)",
        trusted_base=["hook wrappers in pfcpiface/verif_hooks.go (field-for-field copies)", GO_LIBS,
                      "strconv.ParseUint / strings.Split modelled by hand (parseU16, splitOn), validated by the run"],
        assumptions=["the denoted-port-set oracle (interval arithmetic in lean/Check/C17.lean) is cross-checked by brute force on every 257th case"],
    ),
    "C06": dict(
        lean=["Upf.Props.C06"],
        claim="Theorems for every pool, session id and operation sequence (no bound): construction yields exactly the addresses strictly "
              "between network and broadcast; the invariant (free ++ held is a permutation of the pool, no session twice) holds in every "
              "reachable state, hence in-range, exclusive, conserved; sticky; released exactly; refused iff nothing free. Concurrency: the "
              "regenerated lock facts (every method touching the state holds the mutex) instantiate the lockset theorem.",
        note="Trusted: Lean kernel + standard axioms; sync.Mutex and the Go memory model; net.ParseCIDR (modelled as mask arithmetic on BitVec 32, "
             "validated by the run); the syntactic lock-fact extractor. IPv6 pools are outside the model.",
        rule="pool construction for /16../32 on 7 base addresses (aligned, unaligned, top of address space), malformed subnets; "
             "bounded-exhaustive alloc/release sequences on /30 (3 sessions) and /29 (7 sessions); random sequences with more sessions than addresses; "
             "32-goroutine allocate/release/re-allocate runs and 16-goroutine contention on one session id; non-trivial = at least one successful allocation",
        trusted_base=[GO_LIBS, "sync.Mutex / Go memory model", "net.ParseCIDR"],
        assumptions=["IPv4 pools only"],
    ),
    "C07": dict(
        lean=["Upf.Props.C07"],
        claim="Theorems for every modulus M > 0, cursor, used-set and operation sequence: a granted TEID is non-zero, <= M, was free; "
              "refused only when all M are used; live TEIDs pairwise distinct over any alloc/free history (incl. wrap-around); a granted SEID is "
              "non-zero and not live for every random source, refused iff all maxRetries draws collide. Tied by the regenerated updateOffset, "
              "constants and lock facts (T1) and by op-sequence traces with injected cursor/random source (T2). The 'reported = programmed' clause "
              "is checked by the system-level harness under C02/C03.",
        note="Trusted: Lean kernel + standard axioms; sync.Mutex; math/rand only through the injected source; hook wrappers. "
             "alloc_full cannot be exercised on the real 2^32-1 modulus (T2 never sees a refusal); it rests on the theorem and the T1 tie.",
        rule="cursor at {0,1,2,M-3,M-2,M-1} x 5 used-set shapes; random alloc/free/query sequences near and across the wrap; 32-goroutine concurrent "
             "allocation with release; SEID selection with constant, cyclic, zero, colliding (98..101 collisions) and random small sources; "
             "non-trivial = at least one identifier granted",
        trusted_base=[GO_LIBS, "sync.Mutex / Go memory model"],
        assumptions=["distinct associations draw independent SEIDs (uniqueness is per association, as the property states)"],
    ),
    "C08": dict(
        lean=["Upf.Props.C08"],
        claim="Theorems over ALL token lists, UE address strings and lexers: rendered grammar rules parse to exactly what was written (roundtrip); "
              "fewer than 3 tokens / unknown action / unknown direction / a keyword without address are refused in every context; an accepted "
              "description has both clauses; a malformed description leaves exactly the UE-address pre-fill; SDF orientation by direction, "
              "protocol exactness, PFD descriptions taken verbatim from the first matching direction, unknown application refused. "
              "PFD Management replace/rollback is checked by the system-level harness (C01/C02 family).",
        note="Trusted: Lean kernel + standard axioms; hand models of strings.Fields, strconv.ParseUint and net.ParseCIDR (IPv4) validated by the "
             "correspondence run; IPv6 tokens are outside the model (crash-freedom only); go-pfcp's IE codecs.",
        rule="grammar strings (10 protocol forms x 18 address forms x 11 port forms, covering sample in quick / product in thorough, both clause orders) "
             "x UE strings; every single-token corruption (truncate/drop/duplicate/swap/replace) of a spread of them; token soup with odd white space; "
             "edge strings; PDR-level SDF on uplink and downlink PDRs; random PFD tables with 1-3 applications, 0-3 descriptions each, malformed entries "
             "and unknown IDs; every case here reaches a distinct parse outcome, so distinct cases count as non-trivial",
        trusted_base=[GO_LIBS, "go-pfcp IE constructors/accessors", "net.ParseCIDR, strconv.ParseUint, strings.Fields (hand models)"],
        assumptions=["IPv4 only", "PFD Management message handling is exercised at system level, not here"],
    ),
    "C19": dict(
        lean=["Upf.Props.C19"],
        claim="calc_exact is proved about the definition REGENERATED from web_service.go, for all 2^64 rates and every unit string: a non-zero rate whose "
              "converted value fits 63 bits is converted exactly; the handler model answers [201]+programs / [400]+nothing / [405]+nothing. "
              "Tied by T1 (function body, unit constants) and by black-box HTTP requests against the real agent with the slice-meter commands observed "
              "at the harness BESS server (T2).",
        note="Trusted: Lean kernel + standard axioms; net/http and encoding/json (a body counts as malformed iff Go's decoder says so); the extractor's "
             "expression translator; the fake BESS server. The UP4 side (AddSliceInfo on P4) is covered with C04/C16.",
        rule="conversion grid: 9 unit strings x (boundaries floor((2^63-1)/unit)+-2, powers of two, 2^63, 2^64-1, random of three shapes); REST: 60+ documents "
             "(6 unit forms x 10 rate boundaries x burst classes, random), 16 malformed bodies x PUT/POST, bodies shorter than Content-Length, 7 other methods; "
             "non-trivial = a request answered 201, or a distinct conversion case",
        trusted_base=[GO_LIBS, "net/http, encoding/json", "fake BESS server (harness/internal/sysh/bess.go)"],
        assumptions=["BESS datapath for the black-box part"],
    ),
    "C09": dict(
        lean=["Upf.Props.C09"],
        level="proof",
        claim="BESS part proved for all rates / burst configurations / rule sets: closed gate drops; open gate with GBR <= MBR < 2^40 is metered with "
              "peak = MBR x 125 and committed = max(GBR x 125, 1) whatever the other direction left behind; both zero unmetered; burst = exactly "
              "floor(rate x duration / 8) and >= the configured minimum; a QER labelled session-wide by a marking call is referenced by every PDR, at most "
              "one per call. The history clause (never re-labelled) is FALSE for the code: theorem mark_stable_fails + open known finding. "
              "UP4 clauses (gate -> drop action, QFI -> TC) are checked with C04.",
        note="partial: the re-labelling clause is a recorded finding, not a theorem; the UP4 side is with C04. Trusted: Lean kernel + standard axioms, "
             "go-pfcp codecs, fake BESS server, the hand transcription of addQER (validated by every QoS entry of the run).",
        rule="burst grid (15+ boundary rates + random of three shapes x 16 durations); MarkSessionQer on ALL assignments of 13 QER-list shapes to 0..3 PDRs x 10 QER sets "
             "(exhaustive over that shape space); system level: sessions with 1-3 QERs from 11 boundary rates, both gates, 4 QFIs, GBR classes, under two burst "
             "configurations, with QER updates; non-trivial = a QER marked / an accepted request / a distinct burst case",
        trusted_base=[GO_LIBS, "go-pfcp IE codecs", "fake BESS server"],
        assumptions=["rates within PFCP's 40-bit fields", "GBR <= MBR for the exact-rate clauses (as the property states)"],
    ),
    "C03": dict(
        lean=["Upf.Props.C03"],
        level="proof",
        claim="Packet level: for ALL packets, some written pdrLookup entry matches iff the PDR denotes the packet (on top of C17); priorities ordered as precedence. "
              "Table level: establishment/deletion commands turn image(store) into image(store') on keyed tables; disjoint-key commands commute. "
              "Agent level: executable model of establish/modify/delete + MarkSessionQer + bess.go command stream, tied to the REAL agent (child process, public API) "
              "by trace acceptance: after every response the harness BESS server's tables must equal the model's and the image of the live sessions; "
              "restart after SIGKILL must leave the four lookup modules empty.",
        note="partial: the image refinement is proved on the reduced table model, the full agent model is tied by T2 only; BESS itself is a table model "
             "(semantics of pkg/fake_bess). Envelope: IPv4, distinct rule IDs per session, distinct match keys of live PDRs, key-preserving updates.",
        rule="rounds of: seeded leftovers, start, two associations, a random history of 4-13 requests (establish 8 session shapes incl. SDF/app filters, CHOOSE F-TEID, UE-IP "
             "allocation, buffering FARs; handover with/without end marker; create/update/remove rules; unknown session; wrong node ID; CP F-SEID change), then SIGKILL; "
             "non-trivial = an accepted request",
        trusted_base=[GO_LIBS, "go-pfcp IE codecs", "fake BESS server (harness/internal/sysh/bess.go)", "loopback UDP/gRPC"],
        assumptions=["IPv4 only", "distinct live PDRs have distinct match keys", "an Update PDR/QER does not change the rule's table key"],
    ),
}

NOT_APPLICABLE = {}
